#!/bin/bash
# setup_cmd: offline. Makes sure hypothesis is importable from the repository's
# interpreter and that `import spatialpandas` resolves to /repo's working tree.
set -e
cd "$(dirname "$0")"
PY="${VP_PYTHON:-/venv/bin/python}"
if ! "$PY" -c "import hypothesis" 2>/dev/null; then
  PIP_NO_INDEX=1 "$PY" -m pip install --no-index --find-links /opt/veriftools/wheels hypothesis
fi
chmod +x check
mkdir -p evidence replays
PYTHONDONTWRITEBYTECODE=1 NUMBA_NUM_THREADS=1 "$PY" - <<'EOF'
import os, sys
repo = os.environ.get('VERIF_REPO', '/repo')
sys.path.insert(0, repo)
import hypothesis, spatialpandas
assert os.path.realpath(spatialpandas.__file__).startswith(os.path.realpath(repo)), spatialpandas.__file__
print('setup ok: hypothesis', hypothesis.__version__, 'spatialpandas from', spatialpandas.__file__)
EOF
