#!/usr/bin/env python3
"""Regenerates MANIFEST.json from the table below + which check modules exist.
A property whose module is missing is listed under not_applicable with the reason given in PENDING."""
import json
import os

HERE = os.path.dirname(os.path.dirname(os.path.abspath(__file__)))

TABLE = {
    'C01': dict(engine='E3 exhaustive lattice + E1 hypothesis', technique='exhaustive small-scope enumeration + Hypothesis generation against an exact integer geometry oracle (SAT / crossing number)', sec='5 C01',
                text='Differential test of intersects_bounds (array / scalar / inds / GeoSeries forms, 4 corner orders, 5 subtypes) against an independent exact-arithmetic oracle: exhaustive over all small lattice shapes x all half-integer boxes, plus generated larger shapes (holes, multi-part, collinear runs) with feature-aligned boxes. Exploration: exhaustive only for the recorded lattice scope.'),
    'C02': dict(engine='E3 exhaustive lattice + E1 hypothesis', technique='exhaustive small-scope enumeration + Hypothesis generation against an exact in/on/out point classifier', sec='5 C02',
                text='PointArray.intersects / Point.intersects / inds / GeoSeries forms against an exact even-odd classifier on every half-integer lattice point around every small lattice shape and generated larger shapes; truth asserted for in/out, form-consistency for on-boundary points.'),
    'C03': dict(engine='E3 + E1', technique='model-based testing against a brute-force interval model; metamorphic over (p,page_size)', sec='5 C03',
                text='HilbertRtree.intersects / covers_overlaps / total_bounds against a brute-force model for d in {1,2,3}, tie-heavy lattices, NaN rows, all page sizes and p in 1..31; exhaustive tiny scope.'),
    'C04': dict(engine='E1 + index histories', technique='Hypothesis generation; oracle = exact row filter (C01 oracle); metamorphic with/without index histories', sec='5 C04',
                text='cx on arrays / GeoSeries / GeoDataFrame with present/omitted/reversed slice ends equals parent.iloc[rows the exact oracle selects], identical across index histories.'),
    'C05': dict(engine='E1', technique='Hypothesis generation; oracle = nested-loop join model built from the exact point classifier; multiset compare', sec='5 C05',
                text='sjoin(inner/left/right) compared as row multisets with a nested-loop model join.'),
    'C06': dict(engine='E1', technique='differential testing: Dask result vs pandas result over generated partitionings/provenances', sec='5 C06',
                text='Dask cx / cx_partitions / bounds / total_bounds / area / length / intersects_bounds / sjoin equal the pandas computation for arbitrary partitionings and provenances.'),
    'C07': dict(engine='E3 exhaustive + E1 hypothesis', technique='exhaustive enumeration to 2^22 cells + Hypothesis round-trip / adjacency / refinement / independent reference curve', sec='5 C07',
                text='All cells for n=2 p<=11, n=3 p<=7, n=1 p<=22 (thorough) enumerated: bijection, round trips, adjacency, refinement, classical curve end points and equality with an independently constructed reference; sampled with bit-pattern bias up to 62 bits.'),
    'C08': dict(engine='E1', technique='Hypothesis generation; exact reference cell where scaling is exact + metamorphic invariances', sec='5 C08',
                text='hilbert_distance equals the reference curve position of the bbox-centre cell for power-of-two extents; range, selection/permutation invariance, total_bounds type independence and non-mutation everywhere.'),
    'C09': dict(engine='E1', technique='Hypothesis generation; validity predicates (row multiset, index = distance, sortedness, partition count) + partitioning independence', sec='5 C09',
                text='pack_partitions result checked by validity predicates and independence from input partitioning.'),
    'C10': dict(engine='E1 on the real filesystem', technique='Hypothesis generation of frames/configurations; directory-layout predicate + read-back row multiset', sec='5 C10',
                text='pack_partitions_to_parquet directory layout, temp cleanliness, read-back rows and order, overwrite.'),
    'C11': dict(engine='E1', technique='round-trip property testing with Hypothesis over kinds/subtypes/backings/index kinds/compression/partitions/projections', sec='5 C11',
                text='parquet round trip equality of canonical forms for pandas and Dask paths, projections, list/glob reads.'),
    'C12': dict(engine='E1', technique='Hypothesis generation; recorded bounds vs recomputed extents of stored rows; pruning model', sec='5 C12',
                text='stored partition bounds equal recomputed extents per loaded partition; bounds= pruning keeps exactly overlapping partitions.'),
    'C13': dict(engine='E1', technique='Hypothesis generation against a pure-Python min/max model', sec='5 C13',
                text='bounds / total_bounds(_x/_y) / GeoSeries / Dask / sindex.total_bounds equal a pure-Python model for all kinds, subtypes, missing, empty, non-finite, re-backed arrays.'),
    'C14': dict(engine='E1 + E3 structures', technique='Hypothesis generation against exact shoelace / segment-length model; translation metamorphic', sec='5 C14',
                text='area exact on integer coordinates, length exact or 1e-12, boundary = ring list, scalar = array, translation invariance.'),
    'C15': dict(engine='E3 + E1', technique='exhaustive orientation patterns + Hypothesis; validity predicates, idempotence, metamorphic intersection invariance, bounds-checked run', sec='5 C15',
                text='oriented() validity predicates over all orientation patterns of small structures and generated larger ones.'),
    'C16': dict(engine='E2 stateful', technique='Hypothesis stateful (rule-based machine) with a list model; derived quantity == fresh-array quantity', sec='5 C16',
                text='derivation histories per kind compared with a list model after every step.'),
    'C17': dict(engine='E1', technique='metamorphic testing with Hypothesis: inserting inert rows leaves all other results unchanged', sec='5 C17',
                text='insert missing/empty rows at generated positions; every operation restricted to the original rows is unchanged and inert rows are never selected/matched.'),
    'C18': dict(engine='E4 + E1', technique='schedule/thread-count/delay perturbation sampled with Hypothesis; oracle = serial single-thread result', sec='5 C18',
                text='results under threaded scheduler, varying numba threads, concurrent clients and injected delays equal the serial result (sampling, cannot own the OS schedule).'),
    'C19': dict(engine='E4 fault-injecting fsspec filesystem', technique='exhaustive single-fault enumeration; enumerated abort points (a primitive failing through the whole retry budget at every position) followed by the repeat with overwrite=True; fault pairs with the second fault inside the recovery window of the first (thorough: enumerated for two configurations) + Hypothesis-drawn pairs/triples/sticky faults; oracle = fault-free snapshot, identical-or-raises', sec='5 C19',
                text='every filesystem call position x fault kind enumerated; outcome must equal the fault-free dataset or raise, and a repeat with overwrite=True repairs.', category='fault_enumeration'),
    'C20': dict(engine='E2 stateful + E1', technique='Hypothesis stateful machine over frame operations with a model of the active column', sec='5 C20',
                text='active geometry name and behaviour (cx / sindex / sjoin / Dask partitions) follow the model through operation histories.'),
}

NOTE = ('Trusted base: the reference oracles/models under vpbt/ (self-tested at start-up where stated), Hypothesis 6.168, '
        'CPython 3.12 / numpy / pyarrow / pandas / dask / numba as installed, the local filesystem. Exploration-level: '
        'exhaustive only within the scope recorded in the evidence file; everything else is generated sampling.')

BASE_CMD = ('cd /repo && /venv/bin/python -m pytest -ra -q -p no:cacheprovider --timeout=900 '
            '--continue-on-collection-errors')


# properties whose check is finished (quiet on the unchanged tree at several seeds, mutants run)
READY = ['C%02d' % i for i in range(1, 21)]


def main():
    checks, na = [], []
    for pid, t in TABLE.items():
        if pid in READY and os.path.exists(os.path.join(HERE, 'vpbt', 'checks', pid.lower() + '.py')):
            checks.append({
                'property_id': pid,
                'quick_cmd': f'./check {pid} quick',
                'thorough_cmd': f'./check {pid} thorough',
                'evidence_file': f'evidence/{pid}.json',
                'replay_cmd_template': f'./check {pid} --replay {{path}}',
                'engine': t['engine'],
                'technique': t['technique'],
                'level_claimed': {'category': t.get('category', 'exploration'), 'text': t['text'],
                                  'design_ref': 'DESIGN.md section ' + t['sec']},
                'level_note': NOTE,
            })
        else:
            na.append({'property_id': pid,
                       'reason': 'check not built yet in this revision (planned: ' + t['technique'] + '); not claimed until its check exists'})
    hooks_path = os.path.join(HERE, 'hooks.json')
    hooks = {'guard': 'SPATIALPANDAS_VERIF', 'enable': 'export SPATIALPANDAS_VERIF=1 (set by ./check); no instrumentation of /repo is needed, all observation points are public API',
             'baseline_off_cmd': BASE_CMD, 'source_commits': [], 'add_only': True}
    if os.path.exists(hooks_path):
        hooks.update(json.load(open(hooks_path)))
    man = {
        'version': 1,
        'setup_cmd': 'bash setup.sh',
        'hooks': hooks,
        'engines': [
            {'name': 'E1 hypothesis sharded', 'path': 'vpbt/harness.py', 'kind_free_text': 'Hypothesis @given over JSON cases, 16 spawn-ed worker processes, collect-then-shrink', 'serves_properties': [c['property_id'] for c in checks]},
            {'name': 'E2 hypothesis stateful', 'path': 'vpbt/harness.py', 'kind_free_text': 'RuleBasedStateMachine with step log replayed by a plain interpreter', 'serves_properties': [p for p in ('C16', 'C20') if any(c['property_id'] == p for c in checks)]},
            {'name': 'E3 exhaustive small scope', 'path': 'vpbt/harness.py', 'kind_free_text': 'itertools enumeration of finite lattice domains over a process pool, same evaluate() as E1', 'serves_properties': [p for p in ('C01', 'C02', 'C03', 'C07', 'C15') if any(c['property_id'] == p for c in checks)]},
            {'name': 'E4 fault/delay injecting fsspec filesystem', 'path': 'vpbt/faultfs.py', 'kind_free_text': 'LocalFileSystem subclass counting / failing / delaying primitives, passed through the public filesystem= argument', 'serves_properties': [p for p in ('C18', 'C19') if any(c['property_id'] == p for c in checks)]},
        ],
        'checks': checks,
        'not_applicable': na,
        'notes': 'Technique family: property-based testing and fuzzing. ./check <ID> quick|thorough ; VERIF_SEED selects the Hypothesis seeds; exit 2 = harness error/inconclusive, never a verdict. Known findings: known_findings.json.',
    }
    with open(os.path.join(HERE, 'MANIFEST.json'), 'w') as f:
        json.dump(man, f, indent=1)
    print('claimed', [c['property_id'] for c in checks])
    print('not_applicable', [c['property_id'] for c in na])


if __name__ == '__main__':
    main()
