#!/usr/bin/env python3
"""Runs the checks against the independently written property-breaking changes kept under seeded/<name>/
(patch.diff, demo.py, meta.json). Each patch is applied to a scratch copy of /repo/spatialpandas (never to /repo);
the check of the property named in meta.json (plus any in meta['also']) runs with VERIF_REPO=<scratch>.
usage: tools/run_seeded.py [--only name1,name2] [--tier quick] [--demo]   (--demo also runs demo.py on both trees)
Appends a table to SENSITIVITY_SEEDED.md."""
import argparse
import glob
import json
import os
import shutil
import subprocess
import sys
import tempfile

HERE = os.path.dirname(os.path.dirname(os.path.abspath(__file__)))
sys.path.insert(0, os.path.join(HERE, 'tools'))
import run_mutants  # noqa: E402


def demo_exit(demo, root):
    env = dict(os.environ, SP_ROOT=root, NUMBA_NUM_THREADS='1', PYTHONDONTWRITEBYTECODE='1')
    p = subprocess.run(['/venv/bin/python', demo], env=env, capture_output=True, text=True, timeout=900)
    return p.returncode


def main():
    ap = argparse.ArgumentParser()
    ap.add_argument('--only')
    ap.add_argument('--tier', default='quick')
    ap.add_argument('--demo', action='store_true')
    ap.add_argument('--seed', default='1')
    ap.add_argument('--fresh', action='store_true', help='rewrite SENSITIVITY_SEEDED.md instead of appending to it')
    a = ap.parse_args()
    out = []
    for d in sorted(glob.glob(os.path.join(HERE, 'seeded', '*'))):
        name = os.path.basename(d)
        if name.startswith('_'):
            continue
        if a.only and name not in a.only.split(','):
            continue
        meta = json.load(open(os.path.join(d, 'meta.json')))
        props = [meta['property']] + meta.get('also', [])
        demo = ''
        if a.demo:
            scratch = tempfile.mkdtemp(prefix='vpseed_')
            try:
                shutil.copytree('/repo/spatialpandas', os.path.join(scratch, 'spatialpandas'), ignore=shutil.ignore_patterns('__pycache__'))
                e0 = demo_exit(os.path.join(d, 'demo.py'), '/repo')
                subprocess.run(['patch', '-p1', '--quiet', '-i', os.path.join(d, 'patch.diff')], cwd=scratch, check=True)
                e1 = demo_exit(os.path.join(d, 'demo.py'), scratch)
                demo = f'demo {e0}->{e1}'
            finally:
                shutil.rmtree(scratch, ignore_errors=True)
        for prop in props:
            row = dict(id=name, prop=prop, expect='detect', file='', regex='PATCH:' + os.path.relpath(os.path.join(d, 'patch.diff'), HERE), repl='', note=meta.get('summary', ''))
            res, wall, tail = run_mutants.run_one(row, a.tier, a.seed)
            line = f"| {name} | {prop} | {res} | {wall:.0f}s | {demo} | {meta.get('summary', '')[:120]} | {tail[:200]} |"
            print(line, flush=True)
            out.append(line)
    with open(os.path.join(HERE, 'SENSITIVITY_SEEDED.md'), 'w' if a.fresh else 'a') as f:
        if a.fresh:
            f.write('# Checks against the independently written property-breaking changes (tools/run_seeded.py)\n\n'
                    f'tier={a.tier} seed={a.seed}; one row per (change, property whose check is expected to catch it); '
                    '`demo a->b` = exit status of the change\'s own demonstration on the unchanged tree -> with the change\n\n'
                    '| change | property | result | wall | demo | what it breaks | first buckets |\n|---|---|---|---|---|---|---|\n')
        f.write('\n'.join(out) + '\n')


if __name__ == '__main__':
    main()
