#!/usr/bin/env python3
"""Sensitivity / false-alarm runs of the checks themselves.

usage: tools/run_mutants.py [--only C01,C02] [--tier quick] [--ids m1,m2]
Reads mutants/mutants.tsv:  <mutant-id> <property> <expect: detect|benign> <file> <python-regex> <replacement> # note
Each mutant = re.sub(regex, replacement, file_text, count=1) applied to a scratch copy of /repo/spatialpandas
(outside /repo and /verif, removed afterwards). The check runs with VERIF_REPO=<scratch>, outputs redirected.
Writes SENSITIVITY.md.
"""
import argparse
import os
import re
import shutil
import subprocess
import sys
import tempfile
import time

HERE = os.path.dirname(os.path.dirname(os.path.abspath(__file__)))


def load():
    rows = []
    import glob
    lines = []
    for path in sorted(glob.glob(os.path.join(HERE, 'mutants', '*.tsv'))):
        with open(path) as f:
            lines.extend(f.readlines())
    if True:
        for line in lines:
            line = line.rstrip('\n')
            if not line.strip() or line.startswith('#'):
                continue
            parts = line.split('\t')
            if len(parts) < 6:
                print('bad line', line)
                continue
            rows.append(dict(id=parts[0], prop=parts[1], expect=parts[2], file=parts[3], regex=parts[4],
                             repl=parts[5], note=parts[6] if len(parts) > 6 else ''))
    return rows


def run_one(row, tier, seed='1'):
    scratch = tempfile.mkdtemp(prefix='vpmut_')
    try:
        shutil.copytree('/repo/spatialpandas', os.path.join(scratch, 'spatialpandas'),
                        ignore=shutil.ignore_patterns('__pycache__'))
        path = os.path.join(scratch, row['file'])
        src = open(path).read() if not row['regex'].startswith('PATCH:') else ''
        if row['regex'].startswith('PATCH:'):
            p = subprocess.run(['patch', '-p1', '--quiet', '-i', os.path.join(HERE, row['regex'][6:])], cwd=scratch)
            if p.returncode:
                return 'NOAPPLY', 0, ''
        else:
            new, n = re.subn(row['regex'], row['repl'].replace('\\n', '\n'), src, count=1, flags=re.S)
            if n != 1 or new == src:
                return 'NOAPPLY', 0, ''
            open(path, 'w').write(new)
        env = dict(os.environ, VERIF_REPO=scratch, VERIF_OUT=os.path.join(scratch, 'out'), VERIF_SEED=seed)
        t0 = time.time()
        p = subprocess.run([os.path.join(HERE, 'check'), row['prop'], tier], env=env, capture_output=True, text=True)
        wall = time.time() - t0
        viol = [ln for ln in p.stdout.splitlines() if ln.startswith('VIOLATION')]
        buckets = [ln.strip() for ln in p.stdout.splitlines() if ln.strip().startswith('bucket=')]
        if p.returncode == 1 and viol:
            res = 'DETECTED'
        elif p.returncode == 0:
            res = 'QUIET'
        else:
            res = f'ERROR(rc={p.returncode})'
        tail = '; '.join(buckets[:3]) if buckets else p.stdout.strip().splitlines()[-1][:200] if p.stdout.strip() else p.stderr[-300:]
        return res, wall, tail
    finally:
        shutil.rmtree(scratch, ignore_errors=True)


def main():
    ap = argparse.ArgumentParser()
    ap.add_argument('--only')
    ap.add_argument('--ids')
    ap.add_argument('--tier', default='quick')
    ap.add_argument('--seed', default='1')
    a = ap.parse_args()
    rows = load()
    if a.only:
        rows = [r for r in rows if r['prop'] in a.only.split(',')]
    if a.ids:
        rows = [r for r in rows if r['id'] in a.ids.split(',')]
    out = []
    bad = 0
    for r in rows:
        res, wall, tail = run_one(r, a.tier, a.seed)
        ok = (res == 'DETECTED') if r['expect'] == 'detect' else (res == 'QUIET')
        bad += 0 if ok else 1
        line = f"| {r['id']} | {r['prop']} | {r['expect']} | {res} | {'ok' if ok else '**MISMATCH**'} | {wall:.0f}s | {r['note']} | {tail[:160]} |"
        print(line, flush=True)
        out.append(line)
    if not a.ids and not a.only:
        with open(os.path.join(HERE, 'SENSITIVITY.md'), 'w') as f:
            f.write('# Sensitivity of the checks to deliberate changes (tools/run_mutants.py)\n\n'
                    f'tier={a.tier} seed={a.seed}\n\n| mutant | property | expected | result | verdict | wall | change | first buckets |\n|---|---|---|---|---|---|---|---|\n')
            f.write('\n'.join(out) + '\n')
    return 1 if bad else 0


if __name__ == '__main__':
    sys.exit(main())
