#!/bin/bash
# Runs the pinned suite (guard off) and compares with BASELINE.json's stable_pass list.
out=$(mktemp /tmp/vp_junit.XXXXXX.xml)
cd /repo && env -u SPATIALPANDAS_VERIF /venv/bin/python -m pytest -ra -q -p no:cacheprovider --timeout=900 --continue-on-collection-errors --junitxml="$out" >/tmp/vp_pytest.log 2>&1
/venv/bin/python - "$out" <<'PY'
import sys, json, xml.etree.ElementTree as ET
base=json.load(open('/root/.vp/BASELINE.json'))
stable=set(base['stable_pass'])
root=ET.parse(sys.argv[1]).getroot()
passed=set(); failed=set()
for tc in root.iter('testcase'):
    name=f"{tc.get('classname')}::{tc.get('name')}"
    bad=any(ch.tag in('failure','error') for ch in tc)
    skipped=any(ch.tag=='skipped' for ch in tc)
    if bad: failed.add(name)
    elif not skipped: passed.add(name)
miss=sorted(stable-passed)
print(f'passed={len(passed)} failed={len(failed)} stable_pass={len(stable)} stable_missing={len(miss)}')
for m in miss[:20]: print('  MISSING', m)
sys.exit(1 if miss else 0)
PY
rc=$?
rm -f "$out"
exit $rc
