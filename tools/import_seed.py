#!/usr/bin/env python3
"""imports /tmp/seed_<id>_out/{bugK.diff,demoK.py,metaK.json} into /verif/seeded/<id>-K/"""
import json, os, shutil, sys
HERE = os.path.dirname(os.path.dirname(os.path.abspath(__file__)))
for sid in sys.argv[1:]:
    src = f'/tmp/seed_{sid}_out'
    for k in (1, 2, 3):
        if not os.path.exists(f'{src}/bug{k}.diff'):
            continue
        dst = os.path.join(HERE, 'seeded', f'{sid}-{k}')
        os.makedirs(dst, exist_ok=True)
        shutil.copy(f'{src}/bug{k}.diff', f'{dst}/patch.diff')
        shutil.copy(f'{src}/demo{k}.py', f'{dst}/demo.py')
        meta = json.load(open(f'{src}/meta{k}.json'))
        meta['property'] = meta.get('property', sid.upper()).upper()
        meta['origin'] = 'written by a fresh sub-agent that saw only the property text and a scratch worktree (nothing from /verif)'
        json.dump(meta, open(f'{dst}/meta.json', 'w'), indent=1)
        print('imported', dst)
