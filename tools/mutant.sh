#!/bin/bash
# usage: tools/mutant.sh <patch-file|sed:FILE:EXPR> <ID> [tier]   -> runs ./check against a scratch copy of /repo with the change applied
# prints the check's output; exit status is the check's.  Scratch copy and outputs are removed afterwards.
set -u
spec="$1"; id="$2"; tier="${3:-quick}"
scratch=$(mktemp -d /tmp/vpmut.XXXXXX)
trap 'rm -rf "$scratch"' EXIT
cp -r /repo/spatialpandas "$scratch/spatialpandas"
find "$scratch" -name __pycache__ -type d -exec rm -rf {} + 2>/dev/null
if [[ "$spec" == sed:* ]]; then
  IFS=: read -r _ file expr <<<"$spec"
  before=$(md5sum "$scratch/$file")
  sed -i -E "$expr" "$scratch/$file"
  [[ "$before" == "$(md5sum "$scratch/$file")" ]] && { echo "MUTANT DID NOT APPLY"; exit 3; }
else
  (cd "$scratch" && patch -p1 --quiet < "$spec") || { echo "PATCH DID NOT APPLY"; exit 3; }
fi
mkdir -p "$scratch/out"
VERIF_REPO="$scratch" VERIF_OUT="$scratch/out" "$(dirname "$0")/../check" "$id" "$tier"
rc=$?
exit $rc
