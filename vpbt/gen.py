"""Shared Hypothesis strategies. All randomness of every check lives in strategies built here or in
the check modules; construction first, bounded greedy filtering inside the strategy, no assume()."""
import math

from hypothesis import strategies as st

from . import oracle_geom as og
from .model import NEST

# exactness bounds on the magnitude of final coordinates per subtype (DESIGN section 2)
BOUND = {'float64': 2 ** 25, 'int64': 2 ** 25, 'int32': 2 ** 25, 'int16': 2 ** 14, 'float32': 2 ** 10}
BOUND_F32_FRAC = 2 ** 8


# ----------------------------------------------------------------------------- coordinate transform
@st.composite
def transforms(draw, subtype, extent, frac_ok=True, small=False):
    """exact similarity v -> (v*m + t)/q applied to base-lattice ints in [-extent, extent].
    returns dict(m,tx,ty,q).  Result magnitudes respect the subtype's exactness bound."""
    q = 1
    if subtype.startswith('float') and frac_ok:
        q = draw(st.sampled_from([1, 1, 1, 2, 4]))
    B = BOUND[subtype]
    if subtype == 'float32' and q > 1:
        B = BOUND_F32_FRAC
    N = B * q                       # bound on numerators
    extent = max(1, extent)
    kmax = max(0, int(math.log2(N // (2 * extent))) if N // (2 * extent) >= 1 else 0)
    if small:
        kmax = min(kmax, 2)
    k = draw(st.one_of(st.just(0), st.just(0), st.integers(0, kmax)))
    m = 1 << k
    room = max(0, N - extent * m - 4 * m)
    tch = st.one_of(st.just(0), st.integers(-min(room, 8), min(room, 8)), st.integers(-room, room))
    return {'m': m, 'tx': draw(tch), 'ty': draw(tch), 'q': q}


def apply_xf_flat(flat, xf):
    m, tx, ty, q = xf['m'], xf['tx'], xf['ty'], xf['q']
    out = []
    for i, v in enumerate(flat):
        w = v * m + (tx if i % 2 == 0 else ty)
        out.append(w if q == 1 else w / q)
    return out


def apply_xf(kind, el, xf):
    if el is None:
        return None
    d = NEST[kind]
    if d <= 1:
        return apply_xf_flat(el, xf)
    if d == 2:
        return [apply_xf_flat(p, xf) for p in el]
    return [[apply_xf_flat(r, xf) for r in poly] for poly in el]


def unit(xf):
    """size of one base-lattice step after the transform"""
    return xf['m'] if xf['q'] == 1 else xf['m'] / xf['q']


# ----------------------------------------------------------------------------- helpers on base-lattice rings
def flat(pts):
    return [v for p in pts for v in p]


def close(pts):
    pts = list(pts)
    if pts and pts[0] != pts[-1]:
        pts.append(pts[0])
    return pts


def rect_pts(x0, y0, x1, y1):
    return [(x0, y0), (x1, y0), (x1, y1), (x0, y1)]


def hull(points):
    pts = sorted(set(points))
    if len(pts) < 3:
        return None

    def half(ps):
        h = []
        for p in ps:
            while len(h) >= 2 and og.cross(*h[-2], *h[-1], *p) <= 0:
                h.pop()
            h.append(p)
        return h
    lo, up = half(pts), half(pts[::-1])
    h = lo[:-1] + up[:-1]
    return h if len(h) >= 3 else None


def star(points, centre, far=True):
    cx, cy = centre
    best = {}
    for (x, y) in set(points):
        dx, dy = x - cx, y - cy
        if dx == 0 and dy == 0:
            continue
        g = math.gcd(abs(dx), abs(dy))
        key = (dx // g, dy // g)
        d2 = dx * dx + dy * dy
        if key not in best or (d2 > best[key][0]) == far:
            best[key] = (d2, (x, y))

    def ang(key):
        dx, dy = key
        hp = 0 if (dy > 0 or (dy == 0 and dx > 0)) else 1
        return hp, dx, dy
    import functools

    def cmp(a, b):
        ha, hb = ang(a)[0], ang(b)[0]
        if ha != hb:
            return ha - hb
        c = a[0] * b[1] - a[1] * b[0]
        return -1 if c > 0 else (1 if c < 0 else 0)
    keys = sorted(best, key=functools.cmp_to_key(cmp))
    pts = [best[k][1] for k in keys]
    return pts if len(pts) >= 3 else None


CATALOGUE = [
    [(0, 0), (4, 0), (4, 1), (1, 1), (1, 4), (0, 4)],                       # L
    [(0, 0), (5, 0), (5, 4), (4, 4), (4, 1), (1, 1), (1, 4), (0, 4)],       # U
    [(0, 2), (3, 0), (3, 1), (5, 1), (5, 3), (3, 3), (3, 4)],               # arrow
    [(2, 0), (4, 2), (2, 4), (0, 2)],                                       # diamond
    [(0, 0), (1, 2), (2, 0), (3, 2), (4, 0), (4, 4), (0, 4)],               # zig-zag bottom
    [(0, 0), (4, 0), (2, 1), (4, 4), (0, 4), (1, 2)],                       # dented
    [(0, 0), (6, 0), (6, 2), (4, 2), (4, 1), (2, 1), (2, 2), (0, 2)],       # notch (horizontal collinear edges)
    [(0, 0), (2, 0), (2, 2), (4, 2), (4, 4), (2, 4), (0, 4), (0, 2)],       # step with collinear vertices
    [(0, 0), (3, 0), (3, 3), (2, 3), (2, 1), (1, 1), (1, 3), (0, 3)],       # fork
    [(1, 0), (2, 1), (3, 0), (4, 1), (3, 2), (4, 3), (3, 4), (2, 3), (1, 4), (0, 3), (1, 2), (0, 1)],  # star-ish
]

DIHEDRAL = [(1, 0, 0, 1), (0, -1, 1, 0), (-1, 0, 0, -1), (0, 1, -1, 0), (-1, 0, 0, 1), (1, 0, 0, -1), (0, 1, 1, 0), (0, -1, -1, 0)]


def dihedral_pts(pts, g):
    a, b, c, d = DIHEDRAL[g]
    return [(a * x + b * y, c * x + d * y) for x, y in pts]


@st.composite
def staircase(draw):
    k = draw(st.integers(1, 4))
    xs = sorted(draw(st.lists(st.integers(1, 6), min_size=k, max_size=k, unique=True)), reverse=True)
    ys = sorted(draw(st.lists(st.integers(1, 6), min_size=k, max_size=k, unique=True)))
    pts = [(0, 0), (xs[0], 0)]
    for i in range(k):
        pts.append((xs[i], ys[i]))
        nx = xs[i + 1] if i + 1 < k else 0
        pts.append((nx, ys[i]))
    return pts


@st.composite
def comb(draw):
    teeth = draw(st.integers(1, 3))
    h = draw(st.integers(2, 4))
    pts = [(0, 0), (2 * teeth + 1, 0)]
    x = 2 * teeth + 1
    for t in range(teeth):
        th = draw(st.integers(1, h - 1))
        pts += [(x, h), (x - 1, h), (x - 1, th), (x - 2, th)]
        x -= 2
    pts += [(x, h), (0, h)]
    # remove consecutive duplicates
    out = []
    for p in pts:
        if not out or out[-1] != p:
            out.append(p)
    return out


@st.composite
def shells(draw, G=5):
    """simple polygon (list of distinct vertices, not closed) on a base lattice; simple by construction, verified"""
    fam = draw(st.sampled_from(['rect', 'rect', 'hull', 'star', 'stair', 'comb', 'cat', 'cat']))
    pt = st.tuples(st.integers(0, G), st.integers(0, G))
    pts = None
    if fam == 'rect':
        x0, x1 = sorted(draw(st.lists(st.integers(0, G), min_size=2, max_size=2, unique=True)))
        y0, y1 = sorted(draw(st.lists(st.integers(0, G), min_size=2, max_size=2, unique=True)))
        pts = rect_pts(x0, y0, x1, y1)
    elif fam == 'hull':
        pts = hull(draw(st.lists(pt, min_size=3, max_size=8)))
    elif fam == 'star':
        pts = star(draw(st.lists(pt, min_size=4, max_size=10)), draw(pt), draw(st.booleans()))
    elif fam == 'stair':
        pts = draw(staircase())
    elif fam == 'comb':
        pts = draw(comb())
    else:
        pts = list(draw(st.sampled_from(CATALOGUE)))
    if pts is not None:
        pts = dihedral_pts(pts, draw(st.integers(0, 7)))
    if pts is None or not og.is_simple_ring(flat(close(pts))):
        pts, fam = rect_pts(0, 0, draw(st.integers(1, G)), draw(st.integers(1, G))), 'rect-fallback'
    return pts, fam


def _insert_collinear(draw, pts):
    """pts on an even lattice: insert midpoints on some edges (still ints)"""
    out = []
    n = len(pts)
    for i in range(n):
        a, b = pts[i], pts[(i + 1) % n]
        out.append(a)
        if draw(st.integers(0, 3)) == 0:
            mx, my = a[0] + b[0], a[1] + b[1]
            if mx % 2 == 0 and my % 2 == 0:
                out.append((mx // 2, my // 2))
    return out


HOLE_SHAPES = [
    [(0, 0), (1, 0), (1, 1), (0, 1)], [(0, 0), (2, 0), (2, 1), (0, 1)], [(0, 0), (1, 0), (0, 1)],
    [(1, 0), (2, 1), (1, 2), (0, 1)], [(0, 0), (2, 0), (1, 2)], [(0, 0), (3, 0), (3, 1), (0, 1)],
    [(0, 0), (1, 0), (1, 3), (0, 3)], [(0, 0), (2, 0), (2, 2), (0, 2)],
]


def _orient(pts, ccw):
    a2 = og.area2(flat(close(pts)))
    if (a2 > 0) != ccw:
        pts = pts[::-1]
    return pts


def _rotate(draw, pts):
    k = draw(st.integers(0, len(pts) - 1))
    return pts[k:] + pts[:k]


@st.composite
def valid_polygons(draw, max_holes=4, scale=4, G=5):
    """valid polygon: list of closed int rings (flat), hole direction opposite to the shell.
    returns (rings, labels)"""
    pts, fam = draw(shells(G))
    pts = [(x * scale, y * scale) for x, y in pts]
    if draw(st.booleans()):
        pts = _insert_collinear(draw, pts)
    ccw = draw(st.booleans())
    shell = flat(close(_rotate(draw, _orient(pts, ccw))))
    rings = [shell]
    labels = ['shell:' + fam, 'ccw' if ccw else 'cw']
    nh = draw(st.integers(0, max_holes)) if max_holes else 0
    if nh:
        bx = og.bbox(shell)
        for _ in range(nh + 2):
            if len(rings) - 1 >= nh:
                break
            hp = list(draw(st.sampled_from(HOLE_SHAPES)))
            hp = dihedral_pts(hp, draw(st.integers(0, 7)))
            ox = draw(st.integers(bx[0], max(bx[0], bx[2] - 1)))
            oy = draw(st.integers(bx[1], max(bx[1], bx[3] - 1)))
            mnx = min(p[0] for p in hp)
            mny = min(p[1] for p in hp)
            hp = [(x - mnx + ox, y - mny + oy) for x, y in hp]
            hole = flat(close(_rotate(draw, _orient(hp, not ccw))))
            if og.valid_polygon(rings + [hole]):
                rings.append(hole)
    labels.append(f'holes{len(rings) - 1}')
    return rings, labels


def shift_rings(rings, dx, dy):
    return [[v + (dx if i % 2 == 0 else dy) for i, v in enumerate(r)] for r in rings]


@st.composite
def valid_multipolygons(draw, max_parts=3):
    """list of valid polygons with pairwise disjoint interiors: far apart, touching (bbox sides), or nested in a hole"""
    mode = draw(st.sampled_from(['single', 'far', 'touch', 'touch', 'nested', 'mixed']))
    labels = ['mp:' + mode]
    if mode == 'nested':
        w = draw(st.integers(10, 14))
        ccw = draw(st.booleans())
        frame = [flat(close(_orient(rect_pts(0, 0, w, w), ccw))), flat(close(_orient(rect_pts(1, 1, w - 1, w - 1), not ccw)))]
        inner, lab = draw(valid_polygons(max_holes=1, scale=1, G=min(5, w - 5)))
        inner = shift_rings(inner, 2, 2)
        parts = [frame]
        if og.valid_polygon(inner) and og.parts_compatible(frame, inner):
            parts.append(inner)
            labels.append('nested-ok')
        if draw(st.booleans()):
            other, _ = draw(valid_polygons(max_holes=1, scale=2, G=3))
            other = shift_rings(other, w + draw(st.integers(0, 2)), draw(st.integers(-2, 2)))
            if all(og.parts_compatible(p, other) for p in parts):
                parts.append(other)
        return parts, labels
    n = 1 if mode == 'single' else draw(st.integers(2, max_parts))
    parts = []
    for i in range(n):
        poly, lab = draw(valid_polygons(max_holes=2, scale=draw(st.sampled_from([2, 4])), G=4))
        if parts:
            bb = og.bbox(poly[0])
            last = og.bbox(parts[-1][0])
            how = mode if mode != 'mixed' else draw(st.sampled_from(['far', 'touch']))
            if how == 'touch':
                side = draw(st.sampled_from(['right', 'top', 'corner']))
                if side == 'right':
                    dx, dy = last[2] - bb[0], last[1] - bb[1] + draw(st.integers(-2, 2))
                elif side == 'top':
                    dx, dy = last[0] - bb[0] + draw(st.integers(-2, 2)), last[3] - bb[1]
                else:
                    dx, dy = last[2] - bb[0], last[3] - bb[1]
            else:
                dx, dy = last[2] - bb[0] + draw(st.integers(1, 6)), draw(st.integers(-3, 3))
            poly = shift_rings(poly, dx, dy)
        if all(og.parts_compatible(p, poly) for p in parts):
            parts.append(poly)
    labels.append(f'parts{len(parts)}')
    return parts, labels


# ----------------------------------------------------------------------------- lines / points on a base lattice
@st.composite
def polylines(draw, G=4, max_vertices=7, min_vertices=0):
    n = draw(st.integers(min_vertices, max_vertices))
    pts = []
    for _ in range(n):
        op = draw(st.sampled_from(['p', 'p', 'p', 'p', 'dup', 'ext', 'back'])) if pts else 'p'
        if op == 'dup':
            pts.append(pts[-1])
        elif op == 'ext' and len(pts) >= 2:
            a, b = pts[-2], pts[-1]
            pts.append((2 * b[0] - a[0], 2 * b[1] - a[1]))
        elif op == 'back' and len(pts) >= 2:
            pts.append(pts[-2])
        else:
            pts.append((draw(st.integers(0, G)), draw(st.integers(0, G))))
    if pts and draw(st.integers(0, 4)) == 0:
        pts.append(pts[0])
    return flat(pts)


@st.composite
def multipoints(draw, G=4, max_points=6):
    n = draw(st.integers(0, max_points))
    pts = [(draw(st.integers(0, G)), draw(st.integers(0, G))) for _ in range(n)]
    if pts and draw(st.booleans()):
        pts.append(pts[0])
    return flat(pts)


@st.composite
def base_shapes(draw, kind, valid=True):
    """element of `kind` on the base int lattice (+labels).  Polygons are valid when valid=True."""
    if kind == 'point':
        return [draw(st.integers(0, 6)), draw(st.integers(0, 6))], []
    if kind == 'multipoint':
        return draw(multipoints()), []
    if kind == 'line':
        return draw(polylines(min_vertices=1)), []
    if kind == 'ring':
        pts, fam = draw(shells(4))
        if draw(st.booleans()):
            return flat(close(pts)), ['ring:' + fam]
        ln = draw(polylines(min_vertices=2))
        return ln + ln[:2], ['ring:closed-polyline']
    if kind == 'multiline':
        k = draw(st.integers(0, 3))
        return [draw(polylines(max_vertices=5, min_vertices=draw(st.sampled_from([0, 1, 1, 2])))) for _ in range(k)], [f'lines{k}']
    if kind == 'polygon':
        return draw(valid_polygons())
    if kind == 'multipolygon':
        return draw(valid_multipolygons())
    raise ValueError(kind)


def no_leafless(el):
    """elements with nesting but no coordinate at all ([[]], [[],[]], [[[]]]) cannot be turned into scalars by
    arr[i] (open finding D16, owned by C16); every other check generates the plain empty element [] instead"""
    from .model import has_leaf
    if isinstance(el, list) and el and not has_leaf(el):
        return []
    return el


def extent_of(kind, els):
    m = 1
    for el in els:
        if el is None:
            continue
        d = NEST[kind]
        fl = el if d <= 1 else ([v for p in el for v in p] if d == 2 else [v for poly in el for r in poly for v in r])
        for v in fl:
            m = max(m, abs(v))
    return m


# ----------------------------------------------------------------------------- boxes
def _axis_candidates(vals, u):
    vs = sorted(set(vals))
    c = set(vs)
    for a, b in zip(vs[:-1], vs[1:]):
        c.add((a + b) / 2)
    half = u / 2
    for v in vs:
        for o in (half, u, -half, -u):
            c.add(v + o)
    if vs:
        c.add(vs[0] - 3 * u)
        c.add(vs[-1] + 3 * u)
    else:
        c.update([0, u, -u])
    out = []
    for v in c:
        if isinstance(v, float) and v == int(v):
            v = int(v)
        out.append(v)
    return sorted(out)


@st.composite
def feature_boxes(draw, flat_coords, u, allow_degenerate=False):
    """box whose edges are drawn from the shape's own coordinates, midpoints and +-u/2, +-u, far values.
    Returned as [x0,y0,x1,y1] in one of the four corner orders."""
    xs = _axis_candidates(flat_coords[0::2], u)
    ys = _axis_candidates(flat_coords[1::2], u)
    xa, xb = draw(st.sampled_from(xs)), draw(st.sampled_from(xs))
    ya, yb = draw(st.sampled_from(ys)), draw(st.sampled_from(ys))
    if not allow_degenerate:
        if xa == xb:
            xb = xa + draw(st.sampled_from([u / 2, u, 2 * u]))
        if ya == yb:
            yb = ya + draw(st.sampled_from([u / 2, u, 2 * u]))
    return [float(xa), float(ya), float(xb), float(yb)]


subtypes = st.sampled_from(['float64', 'float64', 'float32', 'int64', 'int32', 'int16'])


# ----------------------------------------------------------------------------- "any structure" elements (C11/C13/C14/C15/C16/C17)
def _coord(subtype, nonfinite, wide):
    base = st.integers(-4, 6)
    opts = [base, base, base]
    if wide:
        lim = {'int16': 2 ** 15 - 1, 'int32': 2 ** 31 - 1, 'int64': 2 ** 50, 'float32': 2 ** 20, 'float64': 2 ** 50}[subtype]
        opts.append(st.sampled_from([lim, -lim, lim - 1, 1 - lim]))
        opts.append(st.integers(-lim, lim))
        if subtype.startswith('float'):
            opts.append(st.sampled_from([0.5, -0.25, 1.75, 1e-3 if subtype == 'float64' else 0.125, 3.0e7 if subtype == 'float64' else 1024.5]))
    if nonfinite and subtype.startswith('float'):
        opts.append(st.sampled_from([float('nan'), float('inf'), float('-inf')]))
    return st.one_of(*opts)


@st.composite
def any_flat(draw, subtype, nonfinite=False, wide=False, max_vertices=6, min_vertices=0, exact_f32=True):
    n = draw(st.integers(min_vertices, max_vertices))
    c = _coord(subtype, nonfinite, wide)
    out = []
    for _ in range(n):
        if out and draw(st.integers(0, 5)) == 0:
            out.extend(out[-2:])            # repeated vertex
        else:
            out.extend([draw(c), draw(c)])
    return out


@st.composite
def any_ring(draw, subtype, nonfinite=False, wide=False):
    """ring with 0..6 vertices; rings with >=3 vertices are closed (the library stores closed rings)"""
    k = draw(st.sampled_from([0, 1, 2, 2, 3, 3, 4, 4, 5, 6]))
    c = _coord(subtype, nonfinite, wide)
    pts = [(draw(c), draw(c)) for _ in range(k)]
    if k >= 3 and not wide and draw(st.integers(0, 4)) == 0:
        # collinear ring of zero area
        a, b = pts[0], pts[1]
        if all(isinstance(v, int) for v in a + b):
            pts = [a] + [(a[0] + i * (b[0] - a[0]), a[1] + i * (b[1] - a[1])) for i in range(1, k)]
    mode = draw(st.sampled_from(['closed', 'closed', 'closed', 'open2']))
    if k == 0:
        return []
    if k == 1:
        return list(pts[0]) if mode == 'open2' else list(pts[0]) * 2
    if k == 2 and mode == 'open2':
        return [v for p in pts for v in p]
    return [v for p in pts + [pts[0]] for v in p]


@st.composite
def any_element(draw, kind, subtype, nonfinite=False, wide=False):
    if kind == 'point':
        c = _coord(subtype, nonfinite, wide)
        if subtype.startswith('float') and draw(st.integers(0, 7)) == 0:
            return [float('nan'), float('nan')]
        return [draw(c), draw(c)]
    if kind == 'multipoint':
        return draw(any_flat(subtype, nonfinite, wide))
    if kind == 'line':
        return draw(any_flat(subtype, nonfinite, wide))
    if kind == 'ring':
        return draw(any_ring(subtype, nonfinite, wide))
    if kind == 'multiline':
        return [draw(any_flat(subtype, nonfinite, wide, max_vertices=4)) for _ in range(draw(st.integers(0, 3)))]
    if kind == 'polygon':
        return [draw(any_ring(subtype, nonfinite, wide)) for _ in range(draw(st.integers(0, 4)))]
    if kind == 'multipolygon':
        return [[draw(any_ring(subtype, nonfinite, wide)) for _ in range(draw(st.integers(0, 3)))]
                for _ in range(draw(st.integers(0, 3)))]
    raise ValueError(kind)


@st.composite
def any_array_case(draw, kinds=None, nonfinite=False, wide=False, max_len=8, subtype_st=None, leafless=True, missing=True):
    from .model import KINDS, REBACKINGS
    kind = draw(st.sampled_from(kinds or KINDS))
    subtype = draw(subtype_st or subtypes)
    n = draw(st.one_of(st.integers(0, 3), st.integers(0, max_len)))
    els = []
    for _ in range(n):
        r = draw(st.integers(0, 9))
        if r == 0 and missing:
            els.append(None)
        elif r == 1:
            els.append(([float('nan'), float('nan')] if subtype.startswith('float') else (None if missing else [0, 0])) if kind == 'point' else [])
        else:
            e = draw(any_element(kind, subtype, nonfinite, wide))
            els.append(e if leafless else no_leafless(e))
    return {'kind': kind, 'subtype': subtype, 'elements': els, 'reback': draw(st.sampled_from(REBACKINGS))}


@st.composite
def partition_splits(draw, n, max_parts=5):
    """ordered composition of n rows into k parts (parts may be empty): list of k part sizes"""
    k = draw(st.integers(1, max_parts))
    cuts = sorted(draw(st.lists(st.integers(0, n), min_size=k - 1, max_size=k - 1)))
    edges = [0] + cuts + [n]
    return [b - a for a, b in zip(edges[:-1], edges[1:])]
