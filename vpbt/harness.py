"""Runner shared by all checks.

A check module (vpbt/checks/cXX.py) provides
  PROPERTY, LEVEL, RULE, ASSUMPTIONS, BUDGET = {'quick': {...}, 'thorough': {...}}
  strategy(tier)          -> Hypothesis strategy of JSON cases            (engine E1/E2-lite)  [optional]
  enum_tasks(tier, seed)  -> list of JSON task descriptors                (engine E3/E4)       [optional]
  run_enum_task(task)     -> Result-like dict (see new_result)            (runs in a worker)
  evaluate(case)          -> outcome dict {'failures': [(bucket, detail)], 'labels': [...],
                                           'nontrivial': bool, 'rejected': bool}
Everything that finds a failure must express it as a `case` that `evaluate` re-checks; that case is
the replay file.  Exit status: 0 held / 1 violation / 2 harness error.
"""
import collections
import glob
import hashlib
import importlib
import json
import multiprocessing as mp
import os
import sys
import time
import traceback

VERIF = os.path.dirname(os.path.dirname(os.path.abspath(__file__)))
REPO = os.environ.get('VERIF_REPO', '/repo')
NPROC = int(os.environ.get('VP_NPROC', '16'))
OUT = os.environ.get('VERIF_OUT', VERIF)   # evidence/replays of mutant runs are redirected here


# --------------------------------------------------------------------------- basics
def setup_repo_path():
    """Make `import spatialpandas` resolve to the tree under test; refuse anything else."""
    if not sys.path or sys.path[0] != REPO:
        sys.path.insert(0, REPO)
    import spatialpandas
    real = os.path.realpath(spatialpandas.__file__)
    if not real.startswith(os.path.realpath(REPO) + os.sep):
        raise RuntimeError(f'spatialpandas imported from {real}, expected under {REPO}')
    try:
        import dask
        dask.config.set(scheduler='synchronous')
    except Exception:
        pass


def load(prop):
    return importlib.import_module(f'vpbt.checks.{prop.lower()}')


def canon(case):
    return json.dumps(case, sort_keys=True, separators=(',', ':'), default=_json_default)


def _json_default(o):
    import numpy as np
    if isinstance(o, (np.integer,)):
        return int(o)
    if isinstance(o, (np.floating,)):
        return float(o)
    if isinstance(o, (np.bool_,)):
        return bool(o)
    if isinstance(o, np.ndarray):
        return o.tolist()
    if isinstance(o, (set, frozenset, tuple)):
        return list(o)
    raise TypeError(f'not JSON serialisable: {type(o)}')


def digest(case):
    return int.from_bytes(hashlib.blake2b(canon(case).encode(), digest_size=8).digest(), 'big')


def derive_seed(seed, prop, i):
    h = hashlib.blake2b(f'{seed}:{prop}:{i}'.encode(), digest_size=8).digest()
    return int.from_bytes(h, 'big') >> 1


class Failure(Exception):
    """Raised inside evaluate helpers; carries a bucket (list of str) and a detail string."""
    def __init__(self, bucket, detail=''):
        super().__init__(f'{bucket}: {detail}')
        self.bucket = [str(b) for b in bucket]
        self.detail = str(detail)[:2000]


def lib_frame(exc):
    """innermost spatialpandas frame of an exception -> 'file.py:function'"""
    tb = exc.__traceback__
    site = None
    while tb is not None:
        fn = tb.tb_frame.f_code.co_filename
        if f'{os.sep}spatialpandas{os.sep}' in fn and f'{os.sep}vpbt{os.sep}' not in fn:
            site = f'{os.path.basename(fn)}:{tb.tb_frame.f_code.co_name}'
        tb = tb.tb_next
    return site or 'outside-spatialpandas'


def lib(bucket, fn, *a, **k):
    """Call library code on an in-domain input: any exception is a property failure."""
    try:
        return fn(*a, **k)
    except Failure:
        raise
    except Exception as e:  # noqa: BLE001 - the contract is 'returns', so raising is the failure
        raise Failure(list(bucket) + ['raises', type(e).__name__, lib_frame(e)],
                      f'{type(e).__name__}: {e}') from e


def outcome(failures=(), labels=(), nontrivial=False, rejected=False):
    return {'failures': [(list(b), d) for b, d in failures], 'labels': list(labels),
            'nontrivial': bool(nontrivial), 'rejected': bool(rejected)}


def new_result():
    return {'evaluations': 0, 'rejected': 0, 'nontrivial_count': 0, 'digests': [],
            'labels': {}, 'failures': [], 'samples': [], 'nt_samples': [], 'extra': {}, 'error': None}


MAX_FAILS_PER_BUCKET = 3


def add_outcome(res, case, out, keep_digest=True, _seen=None):
    if out['rejected']:
        res['rejected'] += 1
        return
    res['evaluations'] += 1
    for lab in out['labels']:
        res['labels'][lab] = res['labels'].get(lab, 0) + 1
    if out['nontrivial']:
        if keep_digest:
            res['digests'].append(digest(case))
        else:
            res['nontrivial_count'] += 1
        if len(res['nt_samples']) < 2:
            res['nt_samples'].append(case)
    if len(res['samples']) < 2:
        res['samples'].append(case)
    for bucket, detail in out['failures']:
        key = tuple(bucket)
        n = sum(1 for f in res['failures'] if tuple(f['bucket']) == key)
        if n < MAX_FAILS_PER_BUCKET:
            res['failures'].append({'bucket': list(bucket), 'detail': detail, 'case': case})
        res['labels']['FAIL:' + '/'.join(bucket)] = res['labels'].get('FAIL:' + '/'.join(bucket), 0) + 1


def safe_evaluate(mod, case):
    """evaluate() with Failure exceptions folded into the outcome."""
    t0 = time.time() if os.environ.get('VP_TIMING') else None
    try:
        return mod.evaluate(case)
    except Failure as f:
        return outcome(failures=[(f.bucket, f.detail)], labels=['failure-raised'], nontrivial=True)
    finally:
        if t0 is not None:
            # diagnostic only: where a shard's time goes
            with open(os.environ['VP_TIMING'], 'a') as fh:
                import threading
                fh.write(f'{os.getpid()} {time.time() - t0:.2f} threads={threading.active_count()} {json.dumps(case, default=str)[:600]}\n')


# --------------------------------------------------------------------------- known findings
class Findings:
    def __init__(self, prop):
        path = os.path.join(VERIF, 'known_findings.json')
        self.all = []
        if os.path.exists(path):
            with open(path) as f:
                self.all = json.load(f).get('findings', [])
        self.open = [f for f in self.all if f.get('property') == prop and f.get('status') == 'open']

    @staticmethod
    def _matches(finding, bucket, case, mod):
        m = finding.get('match', {})
        pref = m.get('bucket_prefix')
        if pref is not None and list(bucket[:len(pref)]) != list(pref):
            return False
        contains = m.get('bucket_contains')
        if contains is not None and not all(c in bucket for c in contains):
            return False
        pred = m.get('case_pred')
        if pred is not None:
            fn = getattr(mod, 'PREDICATES', {}).get(pred)
            if fn is None or not fn(case):
                return False
        return True

    def match(self, bucket, case, mod):
        for f in self.open:
            if self._matches(f, bucket, case, mod):
                return f
        return None


# --------------------------------------------------------------------------- workers
def worker(task):
    t0 = time.time()
    try:
        setup_repo_path()
        kind = task['kind']
        mod = load(task['prop'])
        if kind == 'replay':
            res = new_result()
            with open(task['path']) as f:
                rec = json.load(f)
            want = rec['case'].get('_env')
            if want and any(os.environ.get(k) != v for k, v in want.items()):
                # the recorded failure needs another interpreter mode (e.g. NUMBA_BOUNDSCHECK=1)
                import subprocess
                env = dict(os.environ)
                env.update(want)
                p = subprocess.run([sys.executable, '-m', 'vpbt.cli', task['prop'], '--replay', task['path']],
                                   env=env, cwd=VERIF, capture_output=True, text=True)
                if p.returncode == 1:
                    out = outcome(failures=[(rec['bucket'], rec.get('detail', '') + ' [replayed in sub-interpreter]')], nontrivial=True)
                elif p.returncode == 0:
                    out = outcome(labels=['regress-ok'], nontrivial=True)
                else:
                    raise RuntimeError(f'replay sub-interpreter failed: {p.stdout[-500:]} {p.stderr[-500:]}')
            else:
                out = safe_evaluate(mod, rec['case'])
            add_outcome(res, rec['case'], out)
            res['extra']['replayed'] = [os.path.relpath(task['path'], VERIF)]
        elif kind == 'enum':
            res = mod.run_enum_task(task['task'])
        elif kind == 'hyp':
            res = run_hyp_shard(mod, task)
        elif kind == 'hyp_sub':
            res = run_sub_shard(task)
        elif kind == 'stateful':
            res = run_stateful_shard(mod, task)
        else:
            raise ValueError(kind)
        res['wall'] = time.time() - t0
        res['kind'] = kind
        # digests as list for pickling
        return res
    except BaseException:  # noqa: BLE001
        res = new_result()
        res['error'] = f'task {task.get("kind")} {task.get("task", task.get("shard"))}:\n' + traceback.format_exc()
        return res


def run_sub_shard(task):
    """Hypothesis shard in a fresh interpreter with extra environment (e.g. NUMBA_BOUNDSCHECK=1, which numba reads at
    import time). Failures found there carry case['_env'] so that replay re-creates the interpreter mode."""
    import subprocess
    env = dict(os.environ)
    env.update(task['env'])
    t = dict(task, kind='hyp')
    p = subprocess.run([sys.executable, '-m', 'vpbt.subshard'], input=json.dumps(t), capture_output=True, text=True,
                       env=env, cwd=VERIF)
    if p.returncode != 0:
        raise RuntimeError(f'sub-shard failed rc={p.returncode}: {p.stderr[-2000:]}')
    res = json.loads(p.stdout[p.stdout.index('@@RESULT@@') + 10:])
    for f in res['failures']:
        f['case'] = dict(f['case'], _env=task['env'])
        f['bucket'] = f['bucket'] + ['env:' + ','.join(f'{k}={v}' for k, v in sorted(task['env'].items()))]
    res['labels'] = {('sub:' + k): v for k, v in res['labels'].items()}
    res['extra'] = {'subrun_' + '_'.join(f'{k}={v}' for k, v in sorted(task['env'].items())): res['evaluations']}
    return res


def freeze_hypothesis_constants():
    """Hypothesis (>= 6.13x) biases generation towards constants it harvests from the source of every *local* module in
    sys.modules, and re-harvests whenever len(sys.modules) changes. The library under test imports modules lazily (some
    from pyarrow/dask worker threads), so WHEN the pool of constants grows relative to the draws depends on timing: the
    same seed then yields slightly different cases from run to run (measured: 2 of 12 identical invocations under load).
    A run must be a pure function of (code, VERIF_SEED), so the harvest is switched off: only Hypothesis' fixed global
    constants are used."""
    try:
        from hypothesis.internal.conjecture import providers
        frozen = providers._local_constants          # module-level object, still empty before the first harvest
        if any(len(v) for v in vars(frozen).values()):
            return                                   # already harvested in this process: too late to freeze
        providers._get_local_constants = lambda: frozen
    except Exception:  # noqa: BLE001 - other Hypothesis versions: nothing to freeze
        pass


def _hyp_settings(examples, shrink=False):
    from hypothesis import HealthCheck, Phase, settings
    phases = [Phase.generate, Phase.shrink] if shrink else [Phase.generate]
    return settings(max_examples=examples, database=None, deadline=None, derandomize=False,
                    report_multiple_bugs=False, phases=phases,
                    suppress_health_check=[HealthCheck.too_slow, HealthCheck.data_too_large,
                                           HealthCheck.large_base_example],
                    print_blob=False)


def run_hyp_shard(mod, task):
    from hypothesis import given, seed as hseed
    freeze_hypothesis_constants()
    res = new_result()
    strat = mod.strategy(task['tier'])
    sseed = task['seed']
    findings = Findings(task['prop'])

    @hseed(sseed)
    @_hyp_settings(task['examples'])
    @given(strat)
    def collect(case):
        add_outcome(res, case, safe_evaluate(mod, case))

    collect()

    # shrink unknown buckets (known open findings are reported, not shrunk)
    seen = []
    for f in list(res['failures']):
        b = tuple(f['bucket'])
        if b in seen or findings.match(f['bucket'], f['case'], mod):
            continue
        seen.append(b)
        if len(seen) > 2:
            break
        small = shrink_with_hypothesis(mod, strat, sseed, task['examples'], list(b), f['case'],
                                       cap=task.get('shrink_cap', 45))
        if small is not None and small is not f['case']:
            out = safe_evaluate(mod, small)
            det = [d for bb, d in out['failures'] if tuple(bb) == b]
            if det:
                res['failures'].append({'bucket': list(b), 'detail': det[0], 'case': small, 'shrunk': True})
    return res


def shrink_with_hypothesis(mod, strat, sseed, examples, bucket, first_case, cap=45):
    from hypothesis import given, seed as hseed
    best = {'case': first_case, 'size': len(canon(first_case))}
    t_end = time.time() + cap

    class _Found(Exception):
        pass

    @hseed(sseed)
    @_hyp_settings(examples, shrink=True)
    @given(strat)
    def hunt(case):
        if time.time() > t_end:
            return
        out = safe_evaluate(mod, case)
        if any(list(b) == bucket for b, _ in out['failures']):
            s = len(canon(case))
            if s <= best['size']:
                best['case'], best['size'] = case, s
            raise _Found()

    try:
        hunt()
    except BaseException:  # noqa: BLE001 - Found / Flaky / anything: we only want best-so-far
        pass
    return best['case']


def make_machine(mod, res, header_st, step_st, Interp):
    """Generic rule-based machine: one initialize rule (header) and one rule (step); the module's Interp applies steps
    to the library objects and to its model and raises Failure on disagreement. Applied steps are logged in mod.LOG so
    the (shrunk) failing history can be replayed by mod.evaluate({'steps': [...]}) without Hypothesis."""
    from hypothesis.stateful import RuleBasedStateMachine, initialize, rule

    class Machine(RuleBasedStateMachine):
        def __init__(self):
            super().__init__()
            mod.LOG.clear()
            self.interp = None

        @initialize(h=header_st)
        def init(self, h):
            mod.LOG.append(h)
            self.interp = Interp()
            self.interp.apply(h)

        @rule(s=step_st)
        def step(self, s):
            mod.LOG.append(s)
            self.interp.apply(s)

        def teardown(self):
            if self.interp is not None:
                try:
                    case = {'steps': list(mod.LOG)}
                    add_outcome(res, case, outcome(labels=self.interp.labels(), nontrivial=self.interp.nontrivial()))
                finally:
                    self.interp.close()

    Machine.__name__ = f'{mod.PROPERTY}Machine'
    return Machine


def run_stateful_shard(mod, task):
    """E2: Hypothesis RuleBasedStateMachine. The module's machine logs applied steps into
    mod.LOG (a list reset by the machine's __init__); a failing run raises Failure."""
    from hypothesis import seed as hseed
    from hypothesis.stateful import run_state_machine_as_test
    from hypothesis import HealthCheck, Phase, settings
    freeze_hypothesis_constants()
    res = new_result()
    findings = Findings(task['prop'])
    classes = mod.machines(task['tier'], res, task['seed'])
    per = max(1, task['examples'] // len(classes))
    st = settings(max_examples=per, stateful_step_count=task.get('steps', 12),
                  database=None, deadline=None, derandomize=False, report_multiple_bugs=False,
                  phases=[Phase.generate, Phase.shrink],
                  suppress_health_check=list(HealthCheck), print_blob=False)
    for j, Machine in enumerate(classes):
        try:
            run_state_machine_as_test(hseed(task['seed'] + j)(Machine), settings=st)
        except Failure as f:
            case = {'steps': list(mod.LOG)}
            out = safe_evaluate(mod, case)
            if not any(list(b) == f.bucket for b, _ in out['failures']):
                # replay through the plain interpreter must reproduce; otherwise it is a harness problem
                raise RuntimeError(f'stateful failure {f.bucket} did not reproduce from its step log: {out["failures"]}') from f
            res['failures'].append({'bucket': f.bucket, 'detail': f.detail, 'case': case, 'shrunk': True})
    return res


# --------------------------------------------------------------------------- process scheduler
def _child_main(task, conn):
    try:
        conn.send(worker(task))
    finally:
        conn.close()


def run_tasks(tasks, nproc, timeout):
    """One fresh spawn-ed process per task, at most nproc at a time. Why not multiprocessing.Pool:
    (1) Hypothesis keeps process-global state between test runs, so a shard's cases would depend on which shards ran
        earlier in the same worker; a fresh process per task makes a run a pure function of (code, VERIF_SEED, tier);
    (2) Pool hangs forever when a worker dies (and numba kernels can segfault on a broken tree): here a dead worker is
        noticed and reported as {'crashed': exitcode, 'task': task}; a task over `timeout` seconds is terminated and
        reported as {'timed_out': True}."""
    from multiprocessing.connection import wait
    ctx = mp.get_context('spawn')
    pending = list(enumerate(tasks))
    running = {}
    results = [None] * len(tasks)
    while pending or running:
        while pending and len(running) < nproc:
            i, t = pending.pop(0)
            rd, wr = ctx.Pipe(duplex=False)
            p = ctx.Process(target=_child_main, args=(t, wr))
            p.start()
            wr.close()
            running[i] = (p, rd, time.time())
        wait([rd for _, rd, _ in running.values()] + [p.sentinel for p, _, _ in running.values()], timeout=1.0)
        for i, (p, rd, t0) in list(running.items()):
            got = None
            try:
                if rd.poll(0):
                    got = rd.recv()
            except (EOFError, OSError):
                got = None
            if got is not None:
                results[i] = got
                p.join(30)
                rd.close()
                del running[i]
            elif not p.is_alive():
                p.join()
                r = new_result()
                r['crashed'] = p.exitcode if p.exitcode is not None else -999
                r['task'] = tasks[i]
                results[i] = r
                rd.close()
                del running[i]
            elif timeout and time.time() - t0 > timeout:
                p.terminate()
                p.join(10)
                r = new_result()
                r['timed_out'] = True
                r['task'] = tasks[i]
                results[i] = r
                rd.close()
                del running[i]
    return results


# --------------------------------------------------------------------------- parent
def run(prop, tier, seed):
    t0 = time.time()
    mod = load(prop)
    budget = mod.BUDGET[tier]
    findings = Findings(prop)
    tasks = []
    for path in sorted(glob.glob(os.path.join(VERIF, 'regress', prop, '*.json'))):
        tasks.append({'kind': 'replay', 'prop': prop, 'path': path})
    if hasattr(mod, 'enum_tasks'):
        for t in mod.enum_tasks(tier, seed):
            tasks.append({'kind': 'enum', 'prop': prop, 'task': t})
    nsh = budget.get('shards', 0)
    if nsh and hasattr(mod, 'strategy'):
        per = max(1, budget['examples'] // nsh)
        for i in range(nsh):
            tasks.append({'kind': 'hyp', 'prop': prop, 'tier': tier, 'shard': i, 'examples': per,
                          'seed': derive_seed(seed, prop, i), 'shrink_cap': budget.get('shrink_cap', 45)})
    for j, sub in enumerate(budget.get('sub_shards', [])):
        tasks.append({'kind': 'hyp_sub', 'prop': prop, 'tier': tier, 'shard': 500 + j, 'examples': sub['examples'],
                      'seed': derive_seed(seed, prop, 500 + j), 'env': sub['env'], 'shrink_cap': 30})
    nst = budget.get('stateful_shards', 0)
    if nst and hasattr(mod, 'machines'):
        per = max(1, budget['stateful_examples'] // nst)
        for i in range(nst):
            tasks.append({'kind': 'stateful', 'prop': prop, 'tier': tier, 'shard': i, 'examples': per,
                          'steps': budget.get('steps', 12), 'seed': derive_seed(seed, prop, 1000 + i)})
    # dry-run knobs (never set by the registered commands): VP_SMOKE=<f> keeps the fraction f of the generated cases of
    # every shard and every 1/f-th enumeration task, to exercise a tier's code paths in minutes
    smoke = float(os.environ.get('VP_SMOKE', '0') or 0)
    if 0 < smoke < 1:
        stride = max(1, int(round(1 / smoke)))
        enum = [t for t in tasks if t['kind'] == 'enum']
        keep = set(id(t) for t in enum[::stride])
        tasks = [t for t in tasks if t['kind'] != 'enum' or id(t) in keep]
        for t in tasks:
            if 'examples' in t:
                t['examples'] = max(5, int(t['examples'] * smoke))
        budget = dict(budget, min_evaluations=1)
        print(f'SMOKE RUN (VP_SMOKE={smoke}): reduced budget, not a verdict')
    if not tasks:
        print(f'harness error: no tasks for {prop}')
        return 2

    nproc = min(NPROC, budget.get('nproc', NPROC), len(tasks))
    if os.environ.get('VP_INLINE'):
        results = [worker(t) for t in tasks]
    else:
        results = run_tasks(tasks, nproc, budget.get('task_timeout', 3600 if tier == 'quick' else 6 * 3600))

    # a worker that died (segfault / abort: numba kernels have no bounds checking) or hung is not a harness error:
    # dying on an in-domain input breaks every "returns ..." clause. The task itself is the replay unit.
    crashed = [r for r in results if r.get('crashed') is not None]
    timed_out = [r for r in results if r.get('timed_out')]
    if timed_out:
        print(f'INCONCLUSIVE: {len(timed_out)} task(s) exceeded the wall-clock limit; exit 2 (a time budget hit is never a verdict)')
        return 2
    for r in crashed:
        t = r['task']
        rel = os.path.join('replays', prop, f'worker_crashed-{digest(t):016x}.json')
        os.makedirs(os.path.join(OUT, 'replays', prop), exist_ok=True)
        bucket = [prop, 'worker-crashed', f'exitcode{r["crashed"]}', t.get('kind', '?')]
        with open(os.path.join(OUT, rel), 'w') as fh:
            json.dump({'property': prop, 'bucket': bucket, 'detail': f'worker process died with exit code {r["crashed"]} while running this task',
                       'case': {'_task': t}, 'seed': seed, 'tier': tier}, fh, indent=1, default=_json_default)
        print(f'  bucket={"/".join(bucket)}')
        print(f'  detail=worker process died (exit code {r["crashed"]}; negative = killed by that signal) while running task {json.dumps(t, default=_json_default)[:300]}')
        print(f'VIOLATION property={prop} replay={rel}')
    if crashed:
        results = [r for r in results if r.get('crashed') is None]
        if not results:
            return 1

    errors = [r['error'] for r in results if r.get('error')]
    if errors:
        print('HARNESS ERROR (exit 2, not a verdict):')
        for e in errors[:3]:
            print(e)
        return 2

    # ---- merge
    evaluations = sum(r['evaluations'] for r in results)
    rejected = sum(r['rejected'] for r in results)
    digs = set()
    for r in results:
        digs.update(r['digests'])
    nontrivial = len(digs) + sum(r['nontrivial_count'] for r in results)
    labels = collections.Counter()
    for r in results:
        labels.update(r['labels'])
    extra = {}
    for r in results:
        for k, v in r.get('extra', {}).items():
            if isinstance(v, (int, float)) and not isinstance(v, bool):
                extra[k] = extra.get(k, 0) + v
            elif isinstance(v, list):
                extra.setdefault(k, [])
                if len(extra[k]) < 40:
                    extra[k].extend(v[:40 - len(extra[k])])
            else:
                extra[k] = v
    samples, nt_samples = [], []
    for r in sorted(results, key=lambda r: (r.get('kind', ''), -r['evaluations'])):
        if r['samples'] and len(samples) < 3:
            samples.append(r['samples'][0])
        if r['nt_samples'] and len(nt_samples) < 4:
            nt_samples.append(r['nt_samples'][0])

    # ---- failures -> known findings / violations
    by_bucket = collections.OrderedDict()
    for r in results:
        for f in r['failures']:
            by_bucket.setdefault(tuple(f['bucket']), []).append(f)
    known_hits = collections.Counter()
    violations = []
    for b, fs in by_bucket.items():
        unknown = []
        for f in fs:
            kf = findings.match(f['bucket'], f['case'], mod)
            if kf:
                known_hits[kf['id']] += 1
            else:
                unknown.append(f)
        if unknown:
            best = min(unknown, key=lambda f: len(canon(f['case'])))
            violations.append(best)

    # open findings: replay reproducers so the line is printed for each listed finding that still fails
    for kf in findings.open:
        rp = kf.get('reproducer')
        still = None
        if rp and os.path.exists(os.path.join(VERIF, rp)):
            with open(os.path.join(VERIF, rp)) as fh:
                rec = json.load(fh)
            setup_repo_path()
            out = safe_evaluate(mod, rec['case'])
            still = any(findings._matches(kf, bb, rec['case'], mod) for bb, _ in out['failures'])
            for bb, dd in out['failures']:
                if not findings._matches(kf, bb, rec['case'], mod) and not findings.match(bb, rec['case'], mod):
                    violations.append({'bucket': bb, 'detail': dd, 'case': rec['case']})
        if still or (still is None and known_hits.get(kf['id'])):
            print(f"KNOWN-FINDING: property={prop} {kf['id']}: {kf['what']}")
        elif still is False:
            print(f"NOTE: listed finding {kf['id']} no longer reproduces on this tree")

    replay_paths = []
    for v in violations:
        slug = '-'.join(''.join(ch if ch.isalnum() else '_' for ch in x)[:24] for x in v['bucket'][1:5])
        rel = os.path.join('replays', prop, f'{slug}-{digest(v["case"]):016x}.json')
        os.makedirs(os.path.join(OUT, 'replays', prop), exist_ok=True)
        with open(os.path.join(OUT, rel), 'w') as fh:
            json.dump({'property': prop, 'bucket': v['bucket'], 'detail': v['detail'], 'case': v['case'],
                       'seed': seed, 'tier': tier}, fh, indent=1, default=_json_default)
        replay_paths.append(rel)
        print(f'  bucket={"/".join(v["bucket"])}')
        print(f'  detail={v["detail"][:600]}')
        print(f'VIOLATION property={prop} replay={rel}')

    wall = time.time() - t0
    cov = {
        'evaluations': int(evaluations),
        'distinct_nontrivial': int(nontrivial),
        'rule': mod.RULE,
        'samples': (nt_samples + samples)[:6] or [{'note': 'no sample recorded'}],
        'rejected': int(rejected),
        'labels': dict(sorted(labels.items(), key=lambda kv: -kv[1])[:60]),
        'tasks': {k: sum(1 for r in results if r.get('kind') == k) for k in ('replay', 'enum', 'hyp', 'hyp_sub', 'stateful')},
        'buckets_seen': ['/'.join(b) for b in by_bucket],
        'known_findings_hit': dict(known_hits),
        'exhaustive': bool(getattr(mod, 'EXHAUSTIVE', {}).get(tier, False)),
    }
    if hasattr(mod, 'SCOPE'):
        cov['scope'] = mod.SCOPE.get(tier)
    cov.update(extra)
    ev = {
        'property_id': prop, 'tier': tier, 'seed': int(seed), 'level': mod.LEVEL,
        'coverage': cov, 'assumptions': list(mod.ASSUMPTIONS), 'wall_s': round(wall, 2),
        'violations': len(violations),
    }
    os.makedirs(os.path.join(OUT, 'evidence'), exist_ok=True)
    with open(os.path.join(OUT, 'evidence', f'{prop}.json'), 'w') as fh:
        json.dump(ev, fh, indent=1, default=_json_default)
    print(f'{prop} {tier} seed={seed}: evaluations={evaluations} distinct_nontrivial={nontrivial} '
          f'rejected={rejected} violations={len(violations)} known={dict(known_hits)} wall={wall:.1f}s')
    min_eval = budget.get('min_evaluations', 1)
    if not violations and (evaluations < min_eval or nontrivial < 2):
        print(f'INCONCLUSIVE: only {evaluations} evaluations / {nontrivial} non-trivial (minimum {min_eval}); exit 2')
        return 2
    return 1 if violations else 0


def replay(prop, path):
    with open(path) as fh:
        rec = json.load(fh)
    want = rec['case'].get('_env') if isinstance(rec.get('case'), dict) else None
    if want and any(os.environ.get(k) != v for k, v in want.items()):
        import subprocess
        env = dict(os.environ)
        env.update(want)
        return subprocess.run([sys.executable, '-m', 'vpbt.cli', prop, '--replay', path], env=env, cwd=VERIF).returncode
    if isinstance(rec.get('case'), dict) and '_task' in rec['case']:
        # a task whose worker process died: run it again in a child process
        res = run_tasks([rec['case']['_task']], 1, 6 * 3600)[0]
        if res.get('crashed') is not None:
            print(f'  worker process died again (exit code {res["crashed"]})')
            print(f'VIOLATION property={prop} replay={path}')
            return 1
        if res.get('error'):
            print(res['error'])
            return 2
        bad = [f for f in res['failures']]
        for f in bad:
            print(f'  bucket={"/".join(f["bucket"])}\n  detail={f["detail"][:600]}')
        if bad:
            print(f'VIOLATION property={prop} replay={path}')
            return 1
        print(f'OK property={prop} replay={path} (task completed without failure)')
        return 0
    setup_repo_path()
    mod = load(prop)
    out = safe_evaluate(mod, rec['case'])
    findings = Findings(prop)
    bad = [(b, d) for b, d in out['failures'] if not findings.match(b, rec['case'], mod)]
    for b, d in out['failures']:
        print(f'  bucket={"/".join(b)}\n  detail={d[:800]}')
    if bad:
        print(f'VIOLATION property={prop} replay={path}')
        return 1
    print(f'OK property={prop} replay={path} (no unlisted failure)')
    return 0
