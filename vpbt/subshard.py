"""child interpreter for run_sub_shard: task JSON on stdin, result JSON on stdout after the @@RESULT@@ marker"""
import json
import sys

from . import harness


def main():
    task = json.loads(sys.stdin.read())
    res = harness.worker(task)
    if res.get('error'):
        sys.stderr.write(res['error'])
        return 3
    sys.stdout.write('@@RESULT@@' + json.dumps(res, default=harness._json_default))
    return 0


if __name__ == '__main__':
    sys.exit(main())
