"""Element model: canonical JSON form of geometry arrays, builders, reference measures (plain Python).

Element encodings (JSON):
  point        [x, y] | None (missing) | [nan, nan] (empty)
  multipoint / line / ring   flat [x0,y0,x1,y1,...] | None | []
  multiline / polygon        [[flat], [flat], ...] | None | []
  multipolygon               [[[flat], ...], ...] | None | []
"""
import math
import pickle

import numpy as np

KINDS = ['point', 'multipoint', 'line', 'ring', 'multiline', 'polygon', 'multipolygon']
SUBTYPES = ['float64', 'float32', 'int64', 'int32', 'int16']
NEST = {'point': 0, 'multipoint': 1, 'line': 1, 'ring': 1, 'multiline': 2, 'polygon': 2, 'multipolygon': 3}
NAN = float('nan')


def array_class(kind):
    from spatialpandas import geometry as g
    return {'point': g.PointArray, 'multipoint': g.MultiPointArray, 'line': g.LineArray, 'ring': g.RingArray,
            'multiline': g.MultiLineArray, 'polygon': g.PolygonArray, 'multipolygon': g.MultiPolygonArray}[kind]


def scalar_class(kind):
    from spatialpandas import geometry as g
    return {'point': g.Point, 'multipoint': g.MultiPoint, 'line': g.Line, 'ring': g.Ring,
            'multiline': g.MultiLine, 'polygon': g.Polygon, 'multipolygon': g.MultiPolygon}[kind]


def _num(v, subtype):
    if isinstance(v, str):
        v = float(v)
    if subtype.startswith('int'):
        return int(v)
    return float(v)


def _conv(el, subtype):
    if el is None:
        return None
    if isinstance(el, list):
        return [_conv(e, subtype) for e in el]
    return _num(el, subtype)


def build_array(kind, elements, subtype='float64'):
    """plain constructor (zero offsets)"""
    cls = array_class(kind)
    els = [_conv(e, subtype) for e in elements]
    if kind == 'point':
        if not els:
            return cls(np.zeros((0, 2), dtype=subtype))
        if all(e is None for e in els):
            obj = np.empty(len(els), dtype=object)
            obj[:] = None
            return cls(obj, dtype=subtype)
        if all(e is not None for e in els):
            return cls(np.array(els, dtype=subtype).reshape(len(els), 2))
        obj = np.empty(len(els), dtype=object)
        for i, e in enumerate(els):
            obj[i] = None if e is None else np.array(e, dtype=subtype)
        return cls(obj, dtype=subtype)
    return cls(els, dtype=subtype)


def reback(kind, elements, subtype, how, pad=None):
    """Build an array holding `elements` whose backing buffers have non-zero offsets.
    how: 'plain' | 'slice' | 'take' | 'concat' | 'pickle' | 'slice2' """
    if how == 'plain' or not elements and how in ('take',):
        return build_array(kind, elements, subtype)
    pad = pad if pad is not None else default_pad(kind)
    if how == 'head':
        # zero-copy slice that starts at row 0: offset 0, but the buffers hold more rows than the array
        big = build_array(kind, list(elements) + [pad, None, pad], subtype)
        return big[:len(elements)]
    if how == 'slice':
        big = build_array(kind, [pad, None, pad] + list(elements) + [pad], subtype)
        return big[3:3 + len(elements)]
    if how == 'slice2':
        big = build_array(kind, [pad] + [pad, None] + list(elements) + [None, pad], subtype)
        return big[1:][2:2 + len(elements)]
    if how == 'take':
        n = len(elements)
        big = build_array(kind, [pad] + list(elements)[::-1] + [pad], subtype)
        return big.take(np.arange(n, 0, -1))
    if how == 'concat':
        k = len(elements) // 2
        a = build_array(kind, [pad] + list(elements[:k]), subtype)[1:]
        b = build_array(kind, list(elements[k:]) + [pad], subtype)[:len(elements) - k]
        return type(a)._concat_same_type([a, b])
    if how == 'pickle':
        big = build_array(kind, [pad, pad] + list(elements), subtype)
        return pickle.loads(pickle.dumps(big[2:]))
    raise ValueError(how)


REBACKINGS = ['plain', 'head', 'slice', 'slice2', 'take', 'concat', 'pickle']


def default_pad(kind):
    return {'point': [7, -3], 'multipoint': [5, 5, 6, 6, 9, 9], 'line': [5, 5, 6, 7, 9, 9], 'ring': [5, 5, 6, 5, 6, 6, 5, 5],
            'multiline': [[5, 5, 6, 7], [1, 1, 2, 2, 3, 1]], 'polygon': [[5, 5, 7, 5, 7, 7, 5, 7, 5, 5], [5, 5, 5, 6, 6, 6, 5, 5]],
            'multipolygon': [[[5, 5, 7, 5, 7, 7, 5, 5]], [[1, 1, 2, 1, 2, 2, 1, 1], [1, 1, 1, 2, 2, 2, 1, 1]]]}[kind]


# ----------------------------------------------------------------------------- canonical form
def _py(v):
    if isinstance(v, float):
        if math.isnan(v):
            return 'nan'
        if math.isinf(v):
            return 'inf' if v > 0 else '-inf'
        if v == int(v) and abs(v) < 2 ** 53:
            return int(v)
        return v
    if isinstance(v, (int,)):
        return int(v)
    if isinstance(v, (np.integer,)):
        return int(v)
    if isinstance(v, (np.floating,)):
        return _py(float(v))
    if isinstance(v, str):
        return v
    raise TypeError(type(v))


def canon_el(el):
    if el is None:
        return None
    if isinstance(el, (list, tuple, np.ndarray)):
        return [canon_el(e) for e in el]
    return _py(el)


def denorm(e):
    """canonical form -> numbers ('nan'/'inf' strings back to floats)"""
    if isinstance(e, list):
        return [denorm(x) for x in e]
    return float(e) if isinstance(e, str) else e


def canon_elements(elements):
    return [canon_el(e) for e in elements]


def to_canonical(arr, kind=None):
    """Canonical element list of a library array, decoded through pyarrow only (not through the
    library's own flat_values/buffer_offsets, which are the mechanism under test)."""
    data = arr.data
    py = data.to_pylist()
    if py and any(isinstance(e, (bytes, bytearray)) for e in py) or _is_fixed(arr):
        dt = np.dtype(arr.numpy_dtype)
        return [None if e is None else canon_el(np.frombuffer(e, dtype=dt).tolist()) for e in py]
    return [canon_el(e) for e in py]


def _is_fixed(arr):
    import pyarrow as pa
    return pa.types.is_fixed_size_binary(arr.data.type)


def kind_of(arr):
    return type(arr).__name__[:-5].lower()


# ----------------------------------------------------------------------------- reference measures
def _f(v):
    return float(v) if isinstance(v, str) else v


def flat_coords(kind, el):
    """flat list of numbers of one element"""
    if el is None:
        return []
    d = NEST[kind]
    if d <= 1:
        return [_f(v) for v in el]
    if d == 2:
        return [_f(v) for part in el for v in part]
    return [_f(v) for poly in el for ring in poly for v in ring]


def parts(kind, el):
    """list of flat coordinate lists (points / lines / rings) of one element"""
    if el is None:
        return []
    d = NEST[kind]
    if d <= 1:
        return [[_f(v) for v in el]]
    if d == 2:
        return [[_f(v) for v in part] for part in el]
    return [[_f(v) for v in ring] for poly in el for ring in poly]


def finite(v):
    return isinstance(v, int) or math.isfinite(v)


def ref_bounds_flat(flat):
    xs = [v for v in flat[0::2] if finite(v)]
    ys = [v for v in flat[1::2] if finite(v)]
    x0, x1 = (min(xs), max(xs)) if xs else (NAN, NAN)
    y0, y1 = (min(ys), max(ys)) if ys else (NAN, NAN)
    return (x0, y0, x1, y1)


def ref_bounds(kind, elements):
    return [ref_bounds_flat(flat_coords(kind, e)) for e in elements]


def ref_total_bounds(kind, elements):
    flat = []
    for e in elements:
        flat.extend(flat_coords(kind, e))
    return ref_bounds_flat(flat)


def is_inert(kind, el):
    """missing, or no finite coordinate at all"""
    if el is None:
        return True
    fl = flat_coords(kind, el)
    return not any(finite(v) for v in fl)


def has_leaf(el):
    """element has at least one coordinate value (excludes [], [[]], [[],[]] ...)"""
    if el is None:
        return False
    if isinstance(el, list):
        return any(has_leaf(e) for e in el)
    return True


def seg_len_exact(dx, dy):
    """(exact?, value) Euclidean length of an integer/dyadic vector"""
    if dx == 0:
        return True, abs(dy)
    if dy == 0:
        return True, abs(dx)
    if isinstance(dx, int) and isinstance(dy, int):
        s = dx * dx + dy * dy
        r = math.isqrt(s)
        if r * r == s:
            return True, r
    return False, math.hypot(dx, dy)


def ref_length(kind, el):
    """(all_exact, value) ; None element -> (True, nan); point kinds 0"""
    if el is None:
        return True, NAN
    if kind in ('point', 'multipoint'):
        return True, 0.0
    exact = True
    terms = []
    for part in parts(kind, el):
        pts = list(zip(part[0::2], part[1::2]))
        for (ax, ay), (bx, by) in zip(pts[:-1], pts[1:]):
            if not (finite(ax) and finite(ay) and finite(bx) and finite(by)):
                continue
            e, v = seg_len_exact(bx - ax, by - ay)
            exact = exact and e
            terms.append(v)
    return exact, (sum(terms) if exact else math.fsum(terms))


def ring_area2(flat):
    """twice the signed shoelace area of a closed ring (flat list); rings with < 3 vertices -> 0"""
    pts = list(zip(flat[0::2], flat[1::2]))
    if len(pts) < 3:
        return 0
    return sum(a[0] * b[1] - b[0] * a[1] for a, b in zip(pts[:-1], pts[1:]))


def ref_area(kind, el):
    if el is None:
        return NAN
    if kind not in ('polygon', 'multipolygon'):
        return 0.0
    tot = 0
    for ring in parts(kind, el):
        tot += ring_area2(ring)
    return tot / 2


def translate(kind, el, dx, dy):
    if el is None:
        return None
    d = NEST[kind]

    def tr(flat):
        out = []
        for i, v in enumerate(flat):
            v = _f(v)
            out.append(v + (dx if i % 2 == 0 else dy))
        return out
    if d <= 1:
        return tr(el)
    if d == 2:
        return [tr(p) for p in el]
    return [[tr(r) for r in poly] for poly in el]


def same_num(a, b, tol=0.0):
    """NaN-aware numeric equality (a,b Python/NumPy numbers)"""
    a = float(a)
    b = float(b)
    if math.isnan(a) or math.isnan(b):
        return math.isnan(a) and math.isnan(b)
    if a == b:
        return True
    if tol:
        return abs(a - b) <= tol * max(abs(a), abs(b), 1e-300)
    return False


def same_row(a, b, tol=0.0):
    return len(a) == len(b) and all(same_num(x, y, tol) for x, y in zip(a, b))
