"""Helpers for building Dask geo frames with arbitrary (also empty) partitions."""


def split_frame(df, sizes):
    parts, pos = [], 0
    for s in sizes:
        parts.append(df.iloc[pos:pos + s])
        pos += s
    return parts


def from_parts(parts, meta=None):
    import dask.dataframe as dd
    from dask import delayed
    meta = parts[0].iloc[:0] if meta is None else meta
    return dd.from_delayed([delayed(p) for p in parts], meta=meta, verify_meta=False)


def ddf_from_sizes(df, sizes):
    return from_parts(split_frame(df, sizes), meta=df.iloc[:0])
