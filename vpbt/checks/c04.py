"""C04 - .cx selects exactly the intersecting rows, with or without a spatial index."""
import numpy as np
from hypothesis import strategies as st

from .. import gen, model, oracle_geom as og
from ..harness import lib, outcome
from .c01 import _valid_case

PROPERTY = 'C04'
LEVEL = 'exploration'
RULE = ('E1 (Hypothesis): arrays of 0..12 elements of one of the 7 kinds (valid shapes from the C01 generators, missing, empty, '
        'duplicates; 5 subtypes; exact similarity transforms; re-backed buffers) in a container (array / GeoSeries with a drawn '
        'index / GeoDataFrame with extra columns, a second non-active geometry column and a drawn index); key [xs, ys] where '
        'each of the four ends is present / omitted / the pair reversed, resolving to a box of positive area built from the '
        'data\'s own coordinates (+-1/2, +-1); a list of index histories for the same object: never built | build_sindex(p, '
        'page_size in {1,2,3,4,7,8,512}) | built on the parent then iloc-sliced [a:b] | built on the parent then sliced with a step ([::-1], [::2], [:]) | built and queried twice. Oracle: rows whose '
        'element intersects the resolved closed box by the exact C01 oracle (omitted ends <- reference total bounds of the '
        'model); the result must equal parent.iloc[expected] (order, labels, other columns, container type) and be identical '
        'for every history. Non-trivial: the selection is neither empty nor everything and at least one history has an index '
        'with page_size < n. distinct = distinct cases.')
ASSUMPTIONS = ['exact oracle vpbt/oracle_geom.py', 'polygons valid (C01 domain); resolved box has positive width and height; no slice steps, no scalar keys']
BUDGET = {'quick': {'shards': 16, 'examples': 2400, 'min_evaluations': 1000},
          'thorough': {'shards': 16, 'examples': 48000, 'min_evaluations': 20000}}


def _resolve(key, tb):
    xs, ys = key['x'], key['y']
    x0 = xs[0] if xs[0] is not None else tb[0]
    x1 = xs[1] if xs[1] is not None else tb[2]
    y0 = ys[0] if ys[0] is not None else tb[1]
    y1 = ys[1] if ys[1] is not None else tb[3]
    if x1 < x0:
        x0, x1 = x1, x0
    if y1 < y0:
        y0, y1 = y1, y0
    return [x0, y0, x1, y1]


def _container(case, arr, els, idx):
    import spatialpandas as sp
    cont = case['container']
    if cont == 'array':
        return arr
    if cont == 'series':
        return sp.GeoSeries(arr, index=idx, name='g')
    other = model.build_array('point', [[i, -i] for i in range(len(els))], 'float64')
    return sp.GeoDataFrame({'other': other, 'v': np.arange(len(els)) * 10, 'g': arr, 's': [f's{i}' for i in range(len(els))]},
                           index=idx, geometry='g')


def _describe(obj, cont):
    """canonical description of a selection result"""
    if cont == 'array':
        return {'type': type(obj).__name__, 'g': model.to_canonical(obj)}
    if cont == 'series':
        return {'type': type(obj).__name__, 'index': list(obj.index), 'g': model.to_canonical(obj.array), 'name': obj.name}
    return {'type': type(obj).__name__, 'index': list(obj.index), 'g': model.to_canonical(obj['g'].array),
            'v': list(obj['v']), 's': list(obj['s']), 'other': model.to_canonical(obj['other'].array),
            'columns': list(obj.columns), 'active': getattr(obj, '_geometry', None)}


def _expected(case, els, idx, positions, cont, kind, rows=None):
    chosen = [els[i] for i in positions]
    canon = model.canon_elements([model._conv(e, case['subtype']) for e in chosen])
    tname = {'array': model.array_class(kind).__name__, 'series': 'GeoSeries', 'frame': 'GeoDataFrame'}[cont]
    if cont == 'array':
        return {'type': tname, 'g': canon}
    if cont == 'series':
        return {'type': tname, 'index': [idx[i] for i in positions], 'g': canon, 'name': 'g'}
    orig = [rows[i] for i in positions] if rows is not None else list(positions)     # row numbers in the parent
    return {'type': tname, 'index': [idx[i] for i in positions], 'g': canon, 'v': [i * 10 for i in orig],
            's': [f's{i}' for i in orig], 'other': [[i, -i] for i in orig],
            'columns': ['other', 'v', 'g', 's'], 'active': 'g'}


def evaluate(case):
    import spatialpandas as sp
    kind, subtype, els = case['kind'], case['subtype'], case['elements']
    try:
        if not _valid_case({'kind': kind, 'elements': els, 'boxes': []}):
            return outcome(rejected=True)
    except ValueError:
        return outcome(rejected=True)
    B = ['C04', kind, case['container']]
    fails = []
    n = len(els)
    idx_kind = case.get('index', 'default')
    idx = {'default': list(range(n)), 'labels': [f'r{(i * 7) % 11}-{i}' for i in range(n)],
           'nonunique': [i % 3 for i in range(n)]}[idx_kind]
    labels = [kind, case['container'], 'index:' + idx_kind]
    nt_hist = False
    results = []
    for h in case['histories']:
        arr = lib(B + ['construct'], model.reback, kind, els, subtype, case.get('reback', 'plain'))
        lo, hi = 0, n
        obj = _container(case, arr, els, idx)
        tag = h['kind']
        if h['kind'] in ('build', 'twice'):
            obj = lib(B + ['build_sindex'], obj.build_sindex, p=h['p'], page_size=h['page_size'])
        elif h['kind'] == 'parent-sliced':
            obj = lib(B + ['build_sindex'], obj.build_sindex, p=h['p'], page_size=h['page_size'])
            lo, hi = h['lo'] % (n + 1), h['hi'] % (n + 1)
            if hi < lo:
                lo, hi = hi, lo
            obj = obj[lo:hi] if case['container'] == 'array' else obj.iloc[lo:hi]
        sel = list(range(lo, hi))
        if h['kind'] == 'parent-stepped':
            # index built on the parent, then a slice with a step (reversal, every other row): positions change
            obj = lib(B + ['build_sindex'], obj.build_sindex, p=h['p'], page_size=h['page_size'])
            sl = slice(None, None, h['step'])
            obj = obj[sl] if case['container'] == 'array' else obj.iloc[sl]
            sel = list(range(n))[sl]
        sub = [els[i] for i in sel]
        sub_idx = [idx[i] for i in sel]
        canon_sub = model.canon_elements([model._conv(e, subtype) for e in sub])
        tb = model.ref_total_bounds(kind, [model.denorm(e) if e is not None else None for e in canon_sub])
        key = case['key']
        needs_tb = any(v is None for v in key['x'] + key['y'])
        if needs_tb and any(v != v for v in tb):
            labels.append('skipped-history:no-extent')
            continue
        box = _resolve(key, tb)
        if not (box[0] < box[2] and box[1] < box[3]):
            labels.append('skipped-history:degenerate-resolved-box')
            continue
        exp_pos = [i for i, e in enumerate(sub) if og.elem_intersects_box(kind, e, box)]
        exp = _expected(case, sub, sub_idx, exp_pos, case['container'], kind, sel)
        xs = slice(key['x'][0], key['x'][1])
        ys = slice(key['y'][0], key['y'][1])
        reps = 2 if h['kind'] == 'twice' else 1
        for rep in range(reps):
            got_obj = lib(B + ['cx', tag], lambda: obj.cx[xs, ys])
            want_t = {'series': sp.GeoSeries, 'frame': sp.GeoDataFrame}.get(case['container'])
            if want_t is not None and not isinstance(got_obj, want_t):
                fails.append((B + [case['container'], 'cx', 'type', tag], f'cx on a {want_t.__name__} returned a {type(got_obj).__name__} ({len(sub)} rows, history {h})'))
                break
            got = _describe(got_obj, case['container'])
            if got != exp:
                what = 'type' if got['type'] != exp['type'] else (
                    'rows' if got['g'] != exp['g'] or got.get('index') != exp.get('index') else 'other-columns')
                if what == 'rows':
                    gset, eset = got.get('index', got['g']), exp.get('index', exp['g'])
                    if sorted(map(str, gset)) == sorted(map(str, eset)):
                        what = 'order'
                    elif len(gset) > len(eset):
                        what = 'extra-rows'
                    elif len(gset) < len(eset):
                        what = 'missing-rows'
                fails.append((B + ['cx', what, 'indexed' if h['kind'] != 'none' else 'no-index'],
                              f'history={h} key={key} box={box} elements={sub} got={got} expected={exp}'))
                break
        results.append((tag, exp_pos, len(sub)))
        if h['kind'] != 'none' and h.get('page_size', 512) < max(1, len(sel)):
            nt_hist = True
        labels.append('hist:' + h['kind'])
    nt = False
    for tag, pos, m in results:
        if 0 < len(pos) < m:
            nt = nt_hist
            labels.append('partial-selection')
            break
    if any(v is None for v in case['key']['x'] + case['key']['y']):
        labels.append('omitted-end')
    k = case['key']
    if (None not in k['x'] and k['x'][1] < k['x'][0]) or (None not in k['y'] and k['y'][1] < k['y'][0]):
        labels.append('reversed-ends')
    if n == 0:
        labels.append('zero-rows')
    return outcome(failures=fails, labels=labels, nontrivial=nt)


# ----------------------------------------------------------------------------- strategy
@st.composite
def _case(draw):
    kind = draw(st.sampled_from(model.KINDS + ['polygon', 'point']))
    subtype = draw(gen.subtypes)
    n = draw(st.one_of(st.integers(0, 2), st.integers(0, 12)))
    base = []
    for _ in range(n):
        r = draw(st.integers(0, 9))
        if r == 0:
            base.append(None)
        elif r == 1:
            base.append(([float('nan'), float('nan')] if subtype.startswith('float') else None) if kind == 'point' else [])
        elif r == 2 and base and base[-1] is not None:
            base.append(base[-1])
        else:
            base.append(gen.no_leafless(draw(gen.base_shapes(kind))[0]))
    ext = gen.extent_of(kind, [b for b in base if b is not None and not (kind == 'point' and b[0] != b[0])]) + 8
    xf = draw(gen.transforms(subtype, ext))

    def tx(el):
        if el is None or (kind == 'point' and el and isinstance(el[0], float) and el[0] != el[0]):
            return el
        return gen.apply_xf(kind, el, xf)
    els = [tx(e) for e in base]
    u = gen.unit(xf)
    fl = [v for e in els if e is not None for v in model.flat_coords(kind, e) if v == v]
    box = draw(gen.feature_boxes(fl, u, allow_degenerate=False)) if fl else [0.0, 0.0, 1.0, 1.0]
    xs, ys = [box[0], box[2]], [box[1], box[3]]
    # omit ends (only where the data extent is positive on that axis)
    if fl:
        ex = max(fl[0::2]) > min(fl[0::2])
        ey = max(fl[1::2]) > min(fl[1::2])
        for pair, ok in ((xs, ex), (ys, ey)):
            if ok:
                m = draw(st.sampled_from(['both', 'both', 'no-start', 'no-stop', 'neither']))
                if m in ('no-start', 'neither'):
                    pair[0] = None
                if m in ('no-stop', 'neither'):
                    pair[1] = None
    pagesizes = [1, 2, 3, 4, 7, 8, 512]
    hists = [{'kind': 'none'}]
    for _ in range(draw(st.integers(1, 3))):
        hk = draw(st.sampled_from(['build', 'build', 'twice', 'parent-sliced', 'parent-stepped']))
        h = {'kind': hk, 'p': draw(st.integers(1, 20)), 'page_size': draw(st.sampled_from(pagesizes))}
        if hk == 'parent-sliced':
            h['lo'], h['hi'] = draw(st.integers(0, 12)), draw(st.integers(0, 12))
        if hk == 'parent-stepped':
            h['step'] = draw(st.sampled_from([-1, -1, 2, -2, 1]))
        hists.append(h)
    return {'kind': kind, 'subtype': subtype, 'elements': els, 'reback': draw(st.sampled_from(model.REBACKINGS)),
            'key': {'x': xs, 'y': ys}, 'container': draw(st.sampled_from(['array', 'series', 'frame', 'frame'])),
            'index': draw(st.sampled_from(['default', 'labels', 'nonunique'])), 'histories': hists}


def strategy(tier):
    return _case()
