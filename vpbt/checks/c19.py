"""C19 - transient filesystem faults never yield a silently wrong packed dataset (fault enumeration)."""
import json
import os
import shutil
import tempfile

import numpy as np
from hypothesis import strategies as st

from .. import faultfs
from ..harness import add_outcome, new_result, outcome, safe_evaluate

PROPERTY = 'C19'
LEVEL = 'fault_enumeration'
RULE = ('E4: pack_partitions_to_parquet of a fixed 7-row / 2-input-partition point frame runs against a counting fsspec '
        'filesystem (every invocation of open, ls, find, info, exists, isfile, isdir, makedirs, mkdir, rm, rm_file, mv, '
        'invalidate_cache, lexists, islink is a numbered position, nested ones such as the info inside exists included) in the '
        'configurations {temp dir inside the dataset, external temp dir with {uuid}} x {3 output partitions (none empty), 10 output '
        'partitions (some empty)}. Enumeration: EVERY position k = 1..K of the fault-free trace x every fault kind applicable to '
        'the primitive at k (OSError before acting, FileNotFoundError before acting, act-then-raise for mutating primitives, stale '
        'listing for ls/find), one run per (k, kind), _retry_args = 3 attempts without waiting. E1 (Hypothesis): pairs of faults (mostly the second within 14 calls after the first, i.e. inside the recovery path) and '
        'sticky faults (the same primitive on the same path failing r = 1..3 consecutive times, i.e. within and beyond the retry '
        'budget). Oracle: snapshot of the fault-free dataset (listing with entry types, rows and index order per part file, '
        '_common_metadata partition bounds, _metadata row groups, no file under the temp root): the call must either return with '
        'an identical snapshot and a returned frame holding the input rows, or raise; after a raise a fault-free repeat with '
        'overwrite=True must produce the snapshot. Non-trivial = the planned fault actually fired; plans whose position is never '
        'reached are counted as rejected, not as coverage. distinct = distinct (configuration, plan).')
RULE += (' Added after the seeded rounds: external temp directories without a {uuid} field (same directories on every run); abort points (a primitive failing three times in a row at every position) followed by the repeat.')
ASSUMPTIONS = ['faults are injected at the fsspec boundary; byte-level corruption inside pyarrow\'s writer is modelled only as act-then-raise on open',
               'synchronous Dask scheduler so that the call trace is deterministic (checked: two fault-free runs give the same trace)']
SCOPE = {'quick': {'configs': ['ext_empty', 'dflt'], 'single_faults': 'all positions x all applicable kinds',
                   'abort_points': 'config extp: every position x {OSError, FileNotFoundError} failing 3 times in a row, then the repeat'},
         'thorough': {'configs': ['dflt_empty', 'ext_empty', 'dflt', 'ext', 'extp', 'extp_empty'], 'single_faults': 'all positions x all applicable kinds',
                      'abort_points': 'all six configs: every position x {OSError, FileNotFoundError} failing 3 times in a row, then the repeat',
                      'fault_pairs': 'configs ext and dflt_empty: every first fault x every second fault (OSError / FileNotFoundError / stale listing) within the next 12 calls'}}
EXHAUSTIVE = {'quick': True, 'thorough': True}
BUDGET = {'quick': {'shards': 8, 'examples': 640, 'min_evaluations': 300},
          'thorough': {'shards': 16, 'examples': 12000, 'min_evaluations': 2000}}
# (output partitions, temp-directory mode): inside the dataset (default) / outside with a {uuid} field / outside, the same
# directories on every run ('plain': what an aborted run leaves there is still there when the call is repeated)
CONFIGS = {'dflt': (3, False), 'dflt_empty': (10, False), 'ext': (3, True), 'ext_empty': (10, True),
           'extp': (3, 'plain'), 'extp_empty': (10, 'plain')}
RA = dict(stop_max_attempt_number=3)
N = 7
PREDICATES = {}
_BASE = {}
_RUNS = [0]
_DDF = {}


def _frame():
    if 'ddf' not in _DDF:
        import dask.dataframe as dd
        from spatialpandas import GeoDataFrame
        from spatialpandas.geometry import PointArray
        pts = PointArray(np.array([[i, (i * 5) % 7] for i in range(N)], dtype=float))
        df = GeoDataFrame({'a': range(N), 'pt': pts}, index=range(100, 100 + N))
        _DDF['ddf'] = dd.from_pandas(df, npartitions=2)
    return _DDF['ddf']


def snapshot(root):
    import pyarrow.parquet as pq
    path = os.path.join(root, 'ds')
    out = {'entries': {}, 'parts': {}, 'bounds': None, 'row_groups': None, 'temp_files': []}
    if os.path.isdir(path):
        for name in sorted(os.listdir(path)):
            fp = os.path.join(path, name)
            out['entries'][name] = 'dir' if os.path.isdir(fp) else 'file'
            if name.startswith('part.') and os.path.isfile(fp):
                try:
                    t = pq.read_table(fp).to_pandas()
                    out['parts'][name] = [t.index.tolist(), t['a'].tolist()]
                except Exception as e:  # noqa: BLE001
                    out['parts'][name] = f'unreadable: {type(e).__name__}'
            elif name == '_common_metadata':
                try:
                    md = pq.read_metadata(fp).metadata.get(b'spatialpandas')
                    out['bounds'] = json.loads(md.decode()) if md else None
                except Exception as e:  # noqa: BLE001
                    out['bounds'] = f'unreadable: {type(e).__name__}'
            elif name == '_metadata':
                try:
                    out['row_groups'] = pq.read_metadata(fp).num_row_groups
                except Exception as e:  # noqa: BLE001
                    out['row_groups'] = f'unreadable: {type(e).__name__}'
    tmp = os.path.join(root, 'tmp')
    if os.path.isdir(tmp):
        for r, _ds, fs in os.walk(tmp):
            for f in fs:
                out['temp_files'].append(os.path.relpath(os.path.join(r, f), tmp).split(os.sep)[-1])
    return out


def _diff(snap, base):
    d = []
    if snap['entries'] != base['entries']:
        extra = {k: v for k, v in snap['entries'].items() if base['entries'].get(k) != v}
        if any(v == 'dir' for v in extra.values()):
            d.append('placeholder-dir-left')
        elif set(snap['entries']) - set(base['entries']):
            d.append('extra-entries')
        else:
            d.append('missing-entries')
    if snap['parts'] != base['parts'] and 'missing-entries' not in d:
        d.append('part-rows-differ')
    if snap['bounds'] != base['bounds']:
        d.append('recorded-bounds-differ')
    if snap['row_groups'] != base['row_groups']:
        d.append('metadata-row-groups-differ')
    if snap['temp_files']:
        d.append('temp-files-left')
    return d


class _DetUUID:
    """Dask names pure=False tasks with uuid4 and orders ready tasks by name, so the order in which partitions are
    processed - and with it the filesystem call trace - would differ from run to run. The harness owns that source of
    scheduling non-determinism by making uuid4 a counter for the duration of one call."""
    def __init__(self, salt):
        self.n = 0
        self.salt = salt

    def __call__(self):
        import uuid
        self.n += 1
        return uuid.UUID(int=(self.salt << 64) + self.n)


def _pack(root, cfg, fs, overwrite=False):
    import uuid
    nparts, ext = CONFIGS[cfg]
    fmt = None if not ext else (os.path.join(root, 'tmp', 'p{partition}') if ext == 'plain' else os.path.join(root, 'tmp', '{uuid}', 'p{partition}'))
    real = uuid.uuid4
    _RUNS[0] += 1        # names must stay unique within the process (dask-expr interns expressions by name)
    uuid.uuid4 = _DetUUID(0x5EED0000 + _RUNS[0])
    try:
        return _frame().pack_partitions_to_parquet(os.path.join(root, 'ds'), filesystem=fs, npartitions=nparts, p=5,
                                                   _retry_args=RA, tempdir_format=fmt, overwrite=overwrite)
    finally:
        uuid.uuid4 = real


def base(cfg):
    if cfg not in _BASE:
        runs = []
        det = False
        # two consecutive fault-free runs must give the same trace (seen to differ once, on a heavily loaded machine with a
        # modified tree; a second pair is tried before the check gives up with exit 2)
        for _ in range(4):
            root = tempfile.mkdtemp(prefix='vp_c19_')
            try:
                fs = faultfs.FaultFS()
                _pack(root, cfg, fs)
                fs.armed = False
                runs.append((fs.count, [(op, name, site) for _n, op, name, _t, site in fs.log], snapshot(root)))
            finally:
                shutil.rmtree(root, ignore_errors=True)
            if len(runs) >= 2 and runs[-2] == runs[-1]:
                det = True
                break
        _BASE[cfg] = {'K': runs[-1][0], 'trace': runs[-1][1], 'snap': runs[-1][2], 'deterministic': det}
    return _BASE[cfg]


def _history_marker(fired):
    """names the one history behind open finding D27: inside one rm_retry call, rm (or a lookup rm makes) answers
    'not found' and the existence check that should confirm the deletion is hit by a second fault"""
    for i, (n, _op, name, kind, site) in enumerate(fired):
        if site == 'rm_retry' and str(kind).startswith('fnf') and (name == 'rm' or name.endswith('<rm')):
            if any(g[2] == 'info<exists' and g[4] == 'rm_retry' and 0 < g[0] - n <= 4 for g in fired[i + 1:]):
                return ['after:notfound-in-rm+fault-in-exists']
    return []


def run_plan(cfg, plan):
    """returns (status, fired, failures)"""
    b = base(cfg)
    root = tempfile.mkdtemp(prefix='vp_c19_')
    fails = []
    try:
        fs = faultfs.FaultFS(plan={k: v for k, v in plan})
        try:
            res = _pack(root, cfg, fs)
            status = 'returned'
        except BaseException as e:  # noqa: BLE001 - raising is an allowed outcome
            res = None
            status = 'raised:' + type(e).__name__
        fs.armed = False
        fired = list(fs.fired)
        if not fired:
            return 'not-fired', fired, []
        fop, fname, fsite = fired[0][1], fired[0][2], fired[0][4]
        if status == 'returned':
            snap = snapshot(root)
            d = _diff(snap, b['snap'])
            # The returned frame was built while faults were still being injected (a fault in its own directory listing can
            # leave it short of a partition although the dataset on disk is complete). C19 speaks about the dataset left
            # behind, so the returned frame is only recorded, and the dataset is read back independently below.
            note = None
            try:
                back = res.compute()
                rows = sorted(zip(back.index.tolist(), back['a'].tolist()))
                exp = sorted((i, a) for part in b['snap']['parts'].values() for i, a in zip(*part))
                if rows != exp:
                    note = 'returned-frame-incomplete'
            except Exception as e:  # noqa: BLE001
                note = 'returned-frame-unreadable'
            if not d:
                from spatialpandas.io import read_parquet_dask
                try:
                    back = read_parquet_dask(os.path.join(root, 'ds')).compute()
                    rows = sorted(zip(back.index.tolist(), back['a'].tolist()))
                    if rows != sorted((i, a) for part in b['snap']['parts'].values() for i, a in zip(*part)):
                        d.append('read-back-rows-differ')
                except Exception as e:  # noqa: BLE001
                    d.append('read-back-fails-' + type(e).__name__)
            if d:
                fails.append((['C19', 'returned-wrong-dataset', fname, 'site:' + fsite] + _history_marker(fired) + d[:2],
                              f'config={cfg} plan={plan} fired={fired} diff={d} entries={snap["entries"]} parts={snap["parts"]} bounds={snap["bounds"]}'))
        else:
            fs2 = faultfs.FaultFS()
            try:
                _pack(root, cfg, fs2, overwrite=True)
                fs2.armed = False
                snap = snapshot(root)
                snap['temp_files'] = []      # leftovers of the aborted run under the temp root are not the repeat's business
                d = _diff(snap, b['snap'])
                if d:
                    fails.append((['C19', 'repeat-wrong-dataset', fname, 'site:' + fsite] + d[:2],
                                  f'config={cfg} plan={plan} fired={fired} after {status}: diff={d} entries={snap["entries"]}'))
            except BaseException as e:  # noqa: BLE001
                fails.append((['C19', 'repeat-failed', fname, 'site:' + fsite, type(e).__name__],
                              f'config={cfg} plan={plan} fired={fired} after {status}: repeat with overwrite=True raised {type(e).__name__}: {str(e)[:200]}'))
        return status + (('+' + note) if status == 'returned' and note else ''), fired, fails
    finally:
        shutil.rmtree(root, ignore_errors=True)


def evaluate(case):
    cfg = case['config']
    plan = [((int(k) if not isinstance(k, str) or k.isdigit() else k), v) for k, v in case['plan']]
    b = base(cfg)
    if not b['deterministic']:
        raise RuntimeError(f'fault-free trace of {cfg} is not deterministic')
    status, fired, fails = run_plan(cfg, plan)
    if status == 'not-fired':
        return outcome(rejected=True)
    labels = [cfg, status.split(':')[0].split('+')[0], 'faults:%d' % len(fired)] + (['returned-frame-incomplete-or-unreadable'] if '+' in status else []) + ['op:' + f[2] for f in fired[:2]] + ['kind:' + str(f[3]) for f in fired[:2]]
    return outcome(failures=fails, labels=labels, nontrivial=True)


# ----------------------------------------------------------------------------- E4 exhaustive single faults
WINDOW = 12


def enum_tasks(tier, seed):
    tasks = []
    per = 8 if tier == 'quick' else 6
    for cfg in SCOPE[tier]['configs']:
        for c in range(per):
            tasks.append({'config': cfg, 'chunk': c, 'of': per})
    if tier == 'quick':
        # a targeted slice of the windowed pairs: a not-found on one of the reads of the temp directories, followed by a
        # not-found or stale listing within the next WINDOW calls (the read paths are where a fallback could re-list)
        for c in range(8):
            tasks.append({'config': 'ext', 'chunk': c, 'of': 8, 'pairs': 'read-paths'})
    # crash points: the same primitive failing three times in a row (the whole retry budget) at every position aborts the run
    # wherever the call is retried; the repeat with overwrite=True then meets whatever the aborted run left behind (with the
    # 'plain' external temp directories: in the very directories it is about to use)
    for cfg in (['extp'] if tier == 'quick' else list(CONFIGS)):
        for c in range(4):
            tasks.append({'config': cfg, 'chunk': c, 'of': 4, 'abort': True})
    if tier == 'thorough':
        # every pair (first fault at k1, second fault within the next WINDOW calls of the faulty run): the second fault
        # lands in whatever recovery path the first one opened, including calls that never occur in a fault-free run
        for cfg in ('ext', 'dflt_empty'):
            for c in range(48):
                tasks.append({'config': cfg, 'chunk': c, 'of': 48, 'pairs': True})
    return tasks


def run_enum_task(task):
    import vpbt.checks.c19 as me
    res = new_result()
    cfg = task['config']
    b = base(cfg)
    if not b['deterministic']:
        raise RuntimeError(f'fault-free trace of {cfg} is not deterministic')
    K = b['K']
    plans = []
    for k in range(1, K + 1):
        op = b['trace'][k - 1][0]
        for kind in faultfs.kinds_for(op):
            if task.get('pairs') == 'read-paths':
                if kind == 'fnf' and b['trace'][k - 1][2] in ('read_parquet', 'read_parquet_retry'):
                    for d in range(1, WINDOW + 1):
                        for kind2 in ('fnf', 'stale'):
                            plans.append([[k, kind], [k + d, kind2]])
            elif task.get('abort'):
                if kind in ('oserror', 'fnf'):
                    plans.append([[k, kind + '*3']])
            elif task.get('pairs'):
                for d in range(1, WINDOW + 1):
                    for kind2 in ('oserror', 'fnf', 'stale'):
                        plans.append([[k, kind], [k + d, kind2]])
            else:
                plans.append([[k, kind]])
    for plan in plans[task['chunk']::task['of']]:
        case = {'config': cfg, 'plan': plan}
        add_outcome(res, case, safe_evaluate(me, case), keep_digest=False)
    res['extra'] = {f'positions_{cfg}': 0, f'K_{cfg}': K if task['chunk'] == 0 else 0}
    return res


# ----------------------------------------------------------------------------- E1 pairs / sticky faults
KINDS = ['oserror', 'fnf', 'after', 'stale']


@st.composite
def _case(draw):
    cfg = draw(st.sampled_from(list(CONFIGS)))
    # a little past the number of filesystem calls of the fault-free run (127 / 281 / 130 / 291 at the time of writing;
    # a position that is never reached is counted as not-fired)
    kmax = {'dflt': 135, 'dflt_empty': 290, 'ext': 138, 'ext_empty': 300, 'extp': 138, 'extp_empty': 300}[cfg]
    mode = draw(st.sampled_from(['pair', 'pair', 'triple', 'sticky', 'sticky']))
    if mode == 'sticky':
        r = draw(st.integers(2, 3))
        kind = draw(st.sampled_from(['oserror', 'fnf', 'after']))
        return {'config': cfg, 'plan': [[draw(st.integers(1, kmax)), f'{kind}*{r}']]}
    if mode == 'pair' and draw(st.integers(0, 3)) != 0:
        # second fault inside the recovery path of the first: within the next few filesystem calls
        k1 = draw(st.integers(1, kmax))
        k2 = k1 + draw(st.integers(1, 14))
        return {'config': cfg, 'plan': [[k1, draw(st.sampled_from(KINDS))], [k2, draw(st.sampled_from(KINDS))]]}
    n = 2 if mode == 'pair' else 3
    ks = sorted(draw(st.lists(st.integers(1, kmax), min_size=n, max_size=n, unique=True)))
    return {'config': cfg, 'plan': [[k, draw(st.sampled_from(KINDS))] for k in ks]}


def strategy(tier):
    return _case()
