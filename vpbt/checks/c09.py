"""C09 - pack_partitions keeps every row and orders rows along the Hilbert curve.

Also home of the frame helpers shared with C10 (frame strategy, frame builder, row extraction)."""
import collections
import json

import numpy as np
from hypothesis import strategies as st

from .. import dasktools, gen, model
from ..harness import lib, outcome

PROPERTY = 'C09'
LEVEL = 'exploration'
RULE = ('E1 (Hypothesis). A case is a pandas-level frame of 1..24 rows with 1-3 geometry columns (each of a drawn kind out of 7 '
        'and subtype out of 5, "any structure" elements on a small lattice, missing / empty elements, earlier elements repeated '
        'so that Hilbert distances tie, rows optionally spread out by per-row translations so that most distances differ), a drawn ACTIVE geometry column, a unique id column and int / float(NaN) / str(None) '
        'columns, default or non-unique string index; two input partitionings of that frame (ordered compositions of the rows '
        'into 1..5 parts, empty parts allowed, or dd.from_pandas), optionally with the rows pre-sorted by their reference '
        'distance (already sorted input); npartitions in 1..8; p in 1..20. For each partitioning '
        'pack_partitions(npartitions, p) is called on the synchronous scheduler and, when it returns, every partition of the '
        'result is materialised separately and compared with the input: multiset of complete rows (all columns, canonical '
        'geometry of every geometry column, keyed by id), index value of each row == GeoSeries.hilbert_distance of the whole '
        'frame for the active column with the whole frame\'s total_bounds (index name hilbert_distance), index non-decreasing '
        'inside each partition and from one partition to the next, number of partitions (attribute and materialised) == '
        'requested, rows sorted by (index, id) equal for the two partitionings. A pack_partitions call that raises is counted '
        '(label raised:<Type>) and claims nothing; an exception while materialising a result that was returned is a failure '
        '(the result then does not contain the rows). Non-trivial: a returned call with >= 2 input partitions and >= 2 requested '
        'output partitions on a frame that has tied distances or a missing/empty active geometry. distinct = distinct cases.')
ASSUMPTIONS = ['the pandas-level GeoSeries.hilbert_distance with explicit total_bounds is the per-row reference (its correctness is C08)',
               'pandas-level total_bounds of the whole frame is the reference extent (its correctness is C13)',
               'pyarrow decodes the stored elements (canonical form) correctly',
               'the original index of the input frame is not part of a row (set_index replaces it); nothing is asserted about it',
               'a Dask partition is what to_delayed() materialises (all partitions computed in one dask.compute so the shuffle runs once); `npartitions` is additionally read as an attribute',
               'the Dask version installed never raised in pack_partitions on the generated frames (fraction of raised calls is reported in labels)']
BUDGET = {'quick': {'shards': 16, 'examples': 800, 'min_evaluations': 400, 'shrink_cap': 20},
          'thorough': {'shards': 16, 'examples': 16000, 'min_evaluations': 8000}}

INDEX_NAME = 'hilbert_distance'


# ----------------------------------------------------------------------------- shared frame helpers (also used by C10)
def build_frame(fr, prop='C09'):
    """frame description -> (GeoDataFrame with the drawn active geometry, geometry column names, other column names)"""
    import spatialpandas as sp
    n = fr['n']
    data = collections.OrderedDict()
    data['id'] = np.array(fr['id'], dtype=np.int64)
    gcols = []
    for g in fr['geoms']:
        data[g['name']] = lib([prop, 'construct', g['kind']], model.build_array, g['kind'], g['elements'], g['subtype'])
        gcols.append(g['name'])
    data['k'] = np.array(fr['k'], dtype=np.int64)
    data['v'] = np.array([np.nan if v is None else float(v) for v in fr['v']], dtype=np.float64)
    data['s'] = np.array(fr['s'], dtype=object)
    index = None if fr.get('index', 'default') == 'default' else [f'r{(i * 7) % 5}' for i in range(n)]
    gdf = sp.GeoDataFrame(data, index=index)
    order = list(fr.get('columns') or [])
    if order:
        gdf = gdf[order]
    if not isinstance(gdf, sp.GeoDataFrame):
        raise RuntimeError('column selection did not give a GeoDataFrame')
    gdf = lib([prop, 'set_geometry'], gdf.set_geometry, fr['active'])
    return gdf, gcols, ['id', 'k', 'v', 's']


def _norm(v):
    """NaN-/NA-aware plain Python value of a non-geometry cell"""
    if v is None:
        return None
    if isinstance(v, (bool, np.bool_)):
        return bool(v)
    if isinstance(v, (int, np.integer)):
        return int(v)
    if isinstance(v, (float, np.floating)):
        v = float(v)
        return None if v != v else v
    if isinstance(v, str):
        return str(v)
    import pandas as pd
    if v is pd.NA or v is pd.NaT:
        return None
    raise TypeError(f'unexpected cell type {type(v)}')


def frame_rows(df, gcols, ocols):
    """list of (index value, id, canonical JSON of the complete row) for a pandas-level frame"""
    n = len(df)
    cols = {}
    for c in gcols:
        cols[c] = model.to_canonical(df[c].array)
    for c in ocols:
        cols[c] = [_norm(v) for v in df[c].tolist()]
    names = sorted(gcols + ocols)
    idx = [_norm(v) for v in df.index.tolist()]
    out = []
    for i in range(n):
        out.append((idx[i], cols['id'][i], json.dumps([[c, cols[c][i]] for c in names], sort_keys=True)))
    return out


def reference_distances(prop, gdf, p):
    """id -> reference Hilbert distance (pandas-level function, whole-frame bounds, active geometry)"""
    geom = gdf.geometry
    tb = lib([prop, 'reference', 'total_bounds'], lambda: tuple(float(v) for v in geom.total_bounds))
    d = lib([prop, 'reference', 'hilbert_distance'], lambda: geom.hilbert_distance(total_bounds=tb, p=p))
    return {int(i): int(v) for i, v in zip(gdf['id'].tolist(), np.asarray(d).tolist())}


def compare_rows(prop, what, got, expected_rows, ref, fails, detail):
    """got: list of (index, id, rowjson) of a result; expected_rows: id -> rowjson; ref: id -> distance"""
    B = [prop, what]
    cnt = collections.Counter(i for _, i, _ in got)
    lost = sorted(set(expected_rows) - set(cnt))
    extra = sorted(i for i in cnt if i not in expected_rows)
    dup = sorted(i for i, c in cnt.items() if c > 1 and i in expected_rows)
    if lost:
        fails.append((B + ['rows', 'lost'], f'ids {lost[:8]} missing from the result ({len(got)} rows, expected {len(expected_rows)}); {detail}'))
    if dup:
        fails.append((B + ['rows', 'duplicated'], f'ids {dup[:8]} occur more than once; {detail}'))
    if extra:
        fails.append((B + ['rows', 'foreign'], f'ids {extra[:8]} are not input rows; {detail}'))
    for ix, i, rj in got:
        if i in expected_rows and rj != expected_rows[i]:
            fails.append((B + ['rows', 'altered'], f'row id={i}: got {rj[:300]} expected {expected_rows[i][:300]}; {detail}'))
            break
    for ix, i, rj in got:
        if i in ref and ix != ref[i]:
            fails.append((B + ['index', 'not-reference-distance'], f'row id={i}: index {ix} reference distance {ref[i]}; {detail}'))
            break


def check_order(prop, what, parts_idx, fails, detail):
    """parts_idx: list (partition order) of lists of index values"""
    B = [prop, what]
    flat = [v for ix in parts_idx for v in ix]
    if len({type(v).__name__ for v in flat} - {'int', 'float'}) > 0:
        # index values that are not Hilbert distances at all (e.g. labels of rows that should not be there)
        fails.append((B + ['order', 'index-values-not-numeric'], f'{flat[:20]}; {detail}'))
        return
    for j, ix in enumerate(parts_idx):
        if any(a > b for a, b in zip(ix[:-1], ix[1:])):
            fails.append((B + ['order', 'within-partition'], f'partition {j} index {ix[:30]}; {detail}'))
            break
    last = None
    for j, ix in enumerate(parts_idx):
        if not ix:
            continue
        if last is not None and last[1] > min(ix):
            fails.append((B + ['order', 'across-partitions'], f'partition {last[0]} ends with max {last[1]} but partition {j} holds {min(ix)}; {detail}'))
            break
        last = (j, max(ix))


def make_ddf(gdf, spec):
    import dask.dataframe as dd
    if isinstance(spec, dict):
        return dd.from_pandas(gdf, npartitions=spec['from_pandas'])
    return dasktools.ddf_from_sizes(gdf, spec)


def n_input_parts(spec, n):
    return min(spec['from_pandas'], n) if isinstance(spec, dict) else len(spec)


# ----------------------------------------------------------------------------- the property
def _pack_and_check(gdf, gcols, ocols, spec, k, p, expected, ref, fails, labels, tag, prepack=None, via_map=False, window=None):
    """returns sorted (index, id, row) list of the packed result, or None when the call raised"""
    from spatialpandas.dask import DaskGeoDataFrame
    detail = f'partitioning {tag}={spec} npartitions={k} p={p}' + (f' cx-window={window}' if window else '')
    ddf = make_ddf(gdf, spec)
    if not isinstance(ddf, DaskGeoDataFrame):
        raise RuntimeError(f'harness: input is {type(ddf)}')
    if window:
        # a history: the frame that is packed is a cx selection of a larger frame (gdf here is that larger frame; expected
        # and ref describe the selected rows). The selection's own total bounds count, not those of its source partitions
        ddf = lib(['C09', 'cx'], lambda: ddf.cx[window[0]:window[2], window[1]:window[3]])
    alt_refs = []
    if via_map:
        # an intermediate map_partitions without meta=: Dask rebuilds the meta (first geometry column active) while the
        # partitions keep the user's choice. Which column such a frame 'uses' is then ambiguous, but bounds and distances
        # must come from ONE column: the index must equal the reference of some geometry column for all rows.
        ddf = ddf.map_partitions(lambda d: d)
        labels.append('via-map_partitions-without-meta')
        for g in gcols:
            alt_refs.append(reference_distances('C09', gdf.set_geometry(g), p))
    try:
        if prepack:
            # the input is itself a packed frame (its index is already called hilbert_distance, computed at another order)
            ddf = ddf.pack_partitions(npartitions=prepack[0], p=prepack[1])
            labels.append('prepacked-input')
            if len(prepack) > 2 and prepack[2]:
                # ... whose divisions are not known any more (as after a parquet round trip)
                ddf = ddf.clear_divisions()
                labels.append('prepacked-input-unknown-divisions')
        res = ddf.pack_partitions(npartitions=k, p=p)
    except Exception as e:  # noqa: BLE001 - the statement claims nothing when the call raises
        labels.append(f'raised:{type(e).__name__}')
        return None
    labels.append('returned')
    if res.npartitions != k:
        fails.append((['C09', 'npartitions', 'attribute'], f'result.npartitions={res.npartitions}; {detail}'))
    if res.index.name != INDEX_NAME:
        fails.append((['C09', 'index', 'name'], f'index name {res.index.name!r}; {detail}'))
    import dask
    try:
        parts = list(dask.compute(*res.to_delayed()))
    except Exception as e:  # noqa: BLE001
        from ..harness import Failure, lib_frame
        site = lib_frame(e)
        if site == 'outside-spatialpandas':
            # Dask itself cannot build the requested partitioning (e.g. its repartition asserts when asked for more
            # partitions than there are distinct index values): the lazily returned frame is the "call raises" case
            labels.append(f'compute-raised-in-dask:{type(e).__name__}')
            return None
        raise Failure(['C09', 'compute', 'raises', type(e).__name__, site], f'{type(e).__name__}: {e}; {detail}') from e
    if len(parts) != k:
        how = 'fewer-than-requested' if len(parts) < k else 'more-than-requested'
        labels.append('partitions:' + how)
        if len(parts) < k:
            labels.append('fewer-partitions:frame-has->=k-distinct-distances' if len(set(ref.values())) >= k
                          else 'fewer-partitions:frame-has-<k-distinct-distances')
        fails.append((['C09', 'npartitions', 'materialised', how],
                      f'requested {k}, result.npartitions={res.npartitions}, divisions={[None if d is None else int(d) for d in res.divisions]}, '
                      f'materialised partitions={len(parts)} with sizes {[len(x) for x in parts]}; {detail}'))
    cols_in = sorted(gcols + ocols)
    got, parts_idx = [], []
    for j, part in enumerate(parts):
        if sorted(map(str, part.columns)) != cols_in:
            fails.append((['C09', 'columns'], f'partition {j} columns {list(part.columns)} expected {cols_in}; {detail}'))
            return None
        if part.index.name != INDEX_NAME:
            fails.append((['C09', 'index', 'name'], f'partition {j} index name {part.index.name!r}; {detail}'))
        rows = frame_rows(part, gcols, ocols)
        got.extend(rows)
        parts_idx.append([r[0] for r in rows])
    if any(len(x) == 0 for x in parts):
        labels.append('empty-output-partition')
    for alt in alt_refs:
        if all(ix == alt.get(i) for ix, i, _ in got):
            ref = alt
            break
    compare_rows('C09', 'packed', got, expected, ref, fails, detail)
    check_order('C09', 'packed', parts_idx, fails, detail)
    return sorted(got, key=lambda r: (r[0], r[1]))


def evaluate(case):
    fr = case['frame']
    k, p = case['npartitions'], case['p']
    gdf, gcols, ocols = build_frame(fr)
    n = len(gdf)
    ref = reference_distances('C09', gdf, p)
    if case.get('presort'):
        order = sorted(range(n), key=lambda i: (ref[int(gdf['id'].iloc[i])], i))
        gdf = gdf.iloc[order]
        if gdf._geometry != fr['active']:
            raise RuntimeError('harness: iloc lost the active geometry')
    window, source = None, gdf
    if case.get('cx_before') and n >= 2 and not case.get('via_map'):   # (which column a meta-less frame selects by is ambiguous)
        tb = [float(v) for v in gdf.geometry.total_bounds]
        if all(v == v for v in tb) and tb[0] < tb[2] and tb[1] < tb[3]:
            f = case['cx_before']
            window = [tb[0] - 1.0, tb[1] - 1.0, tb[0] + (tb[2] - tb[0]) * f, tb[3] + 1.0]
            keep = np.asarray(gdf.geometry.intersects_bounds(tuple(window)))
            if keep.any():
                gdf = gdf[keep]
                if gdf._geometry != fr['active']:
                    raise RuntimeError('harness: mask lost the active geometry')
                n = len(gdf)
                ref = reference_distances('C09', gdf, p)
            else:
                window = None
    expected = {i: rj for _, i, rj in frame_rows(gdf, gcols, ocols)}
    if len(expected) != n:
        raise RuntimeError('harness: ids not unique')
    active = next(g for g in fr['geoms'] if g['name'] == fr['active'])
    n_inert = sum(1 for e in model.to_canonical(gdf[fr['active']].array) if model.is_inert(active['kind'], e))
    ties = len(set(ref.values())) < n
    labels = [f'geoms{len(gcols)}', f'active:{gcols.index(fr["active"])}', f'k{k}', 'p<=3' if p <= 3 else ('p4-10' if p <= 10 else 'p11-20'),
              'rows1' if n == 1 else ('rows2-6' if n <= 6 else 'rows7-24')]
    if ties:
        labels.append('ties')
    if len(set(ref.values())) == 1 and n > 1:
        labels.append('all-rows-one-distance')
    if n_inert:
        labels.append('missing-or-empty-active-geometry')
    if n_inert == n:
        labels.append('all-active-geometries-inert')
    if case.get('presort'):
        labels.append('presorted-input')
    if window:
        labels.append('input-is-a-cx-selection' + ('(proper-subset)' if len(gdf) < len(source) else ''))
    fails = []
    results = []
    for tag in ('a', 'b'):
        spec = case['parts_' + tag]
        labels.append(f'in-parts{n_input_parts(spec, n)}' if not isinstance(spec, dict) else 'in:from_pandas')
        if not isinstance(spec, dict) and 0 in spec:
            labels.append('empty-input-partition')
        results.append(_pack_and_check(source if window else gdf, gcols, ocols, spec, k, p, expected, ref, fails, labels, tag,
                                       prepack=case.get('prepack') if tag == 'b' else None,
                                       via_map=bool(case.get('via_map')) and tag == 'a', window=window))
    if results[0] is not None and results[1] is not None and results[0] != results[1] and not case.get('via_map'):
        diff = next((x, y) for x, y in zip(results[0] + [None], results[1] + [None]) if x != y)
        fails.append((['C09', 'partitioning-dependence'], f'parts_a={case["parts_a"]} parts_b={case["parts_b"]} k={k} p={p}: first difference {str(diff)[:400]}'))
    returned = sum(1 for r in results if r is not None)
    if returned < 2:
        labels.append('some-call-raised')
    multi_in = any(n_input_parts(case['parts_' + t], n) >= 2 and results[i] is not None for i, t in enumerate('ab'))
    nt = returned > 0 and multi_in and k >= 2 and (ties or n_inert > 0)
    seen, uniq = set(), []
    for b, d in fails:
        if tuple(b) not in seen:
            seen.add(tuple(b))
            uniq.append((b, d))
    return outcome(failures=uniq, labels=sorted(set(labels)), nontrivial=nt)


# ----------------------------------------------------------------------------- strategy
@st.composite
def frames(draw, max_rows=24, max_geoms=3):
    n = draw(st.one_of(st.integers(1, 4), st.sampled_from(range(2, 11)), st.sampled_from(range(1, max_rows + 1))))
    ng = draw(st.integers(1, max_geoms))
    geoms = []
    for j in range(ng):
        kind = draw(st.sampled_from(model.KINDS))
        subtype = draw(gen.subtypes)
        spread = draw(st.booleans())
        miss_rate = draw(st.sampled_from([0, 1, 0, 2, 0]))     # out of 16: share of missing rows, and of empty rows
        dup_rate = draw(st.sampled_from([0, 2, 2, 6]))          # out of 16: share of rows repeating an earlier element
        els = []
        for _ in range(n):
            r = draw(st.sampled_from(range(16)))
            if r < miss_rate:
                e = None
            elif 2 <= r < 2 + miss_rate:
                e = ([float('nan'), float('nan')] if subtype.startswith('float') else None) if kind == 'point' else []
            elif 4 <= r < 4 + dup_rate and els:
                e = els[draw(st.sampled_from(range(len(els))))]
            else:
                e = gen.no_leafless(draw(gen.any_element(kind, subtype, False, False)))
                if spread and e:
                    # spread the rows out so that most distances differ (many non-empty output partitions)
                    e = model.translate(kind, e, draw(st.sampled_from(range(-40, 41))), draw(st.sampled_from(range(-40, 41))))
            els.append(e)
        geoms.append({'name': f'g{j}', 'kind': kind, 'subtype': subtype, 'elements': els})
    ids = draw(st.permutations(list(range(n)))) if draw(st.booleans()) else list(range(n))
    base = draw(st.sampled_from([0, 100]))
    cols = ['id'] + [g['name'] for g in geoms] + ['k', 'v', 's']
    if draw(st.booleans()):
        cols = list(draw(st.permutations(cols)))
    return {'n': n, 'geoms': geoms, 'active': draw(st.sampled_from([g['name'] for g in geoms])),
            'id': [base + i for i in ids],
            'k': [draw(st.integers(0, 3)) for _ in range(n)],
            'v': [draw(st.one_of(st.none(), st.sampled_from([0.5, -1.25, 3.0, 1e300]))) for _ in range(n)],
            's': [draw(st.sampled_from([None, 'a', 'b', '', 'long string é'])) for _ in range(n)],
            'index': draw(st.sampled_from(['default', 'default', 'labels'])), 'columns': cols}


@st.composite
def partitionings(draw, n, max_parts=5):
    # mostly a handful of input partitions; sometimes more than ten (textual and numeric order of part<i> names differ)
    if draw(st.sampled_from(range(4))) == 0:
        max_parts = 14
    if draw(st.sampled_from(range(5))) == 0:
        return {'from_pandas': draw(st.integers(1, max_parts))}
    return draw(gen.partition_splits(n, max_parts))


@st.composite
def _case(draw):
    # configuration first, the (large) frame last: draws made after a large amount of data are less evenly spread
    k = draw(st.one_of(st.sampled_from(range(1, 9)), st.sampled_from(range(2, 5))))
    p = draw(st.one_of(st.sampled_from(range(1, 21)), st.sampled_from(range(4, 21)), st.sampled_from(range(1, 4))))
    presort = draw(st.sampled_from(range(4))) == 0
    fr = draw(frames())
    n = fr['n']
    prepack = [draw(st.sampled_from(range(1, 5))), draw(st.sampled_from(range(1, 13))), draw(st.booleans())] if draw(st.sampled_from(range(5))) == 0 else None
    return {'frame': fr, 'presort': presort, 'parts_a': draw(partitionings(n)), 'parts_b': draw(partitionings(n)),
            'npartitions': k, 'p': p, 'prepack': prepack, 'via_map': draw(st.sampled_from(range(6))) == 0,
            'cx_before': draw(st.sampled_from([None, None, None, 0.25, 0.5, 0.75]))}


def strategy(tier):
    return _case()
