"""C17 - missing and empty geometries are inert (metamorphic)."""
import math

import numpy as np
from hypothesis import strategies as st

from .. import dasktools, gen, model
from ..harness import lib, outcome

PROPERTY = 'C17'
LEVEL = 'exploration'
RULE = ('Metamorphic, E1 (Hypothesis): an array/frame A of any of the 7 kinds (lattice or arbitrary finite float coordinates, '
        '5 subtypes) and a drawn placement of inert rows (missing; empty []; [nan,nan] points) - first, last, runs as long as an '
        'R-tree page, a whole Dask partition, all rows - giving A\'. For every operation op in {bounds, total_bounds(_x/_y), '
        'length, area, intersects_bounds, PointArray.intersects, sindex.intersects / covers_overlaps, cx without index and with '
        'an index of drawn page size (array / GeoSeries / GeoDataFrame), hilbert_distance with explicit bounds, sjoin with inert '
        'rows on the left and on the right (inner/left/right), Dask cx / total_bounds / bounds with arbitrary partitions incl. an '
        'all-inert one, pack_partitions}: op(A\') restricted to the original rows == op(A), and inert rows are never True / '
        'selected / matched, have NaN bounds and NaN length/area when missing. No oracle is needed. '
        'Non-trivial: at least one inert row inserted next to at least one non-inert row. distinct = distinct cases.')
ASSUMPTIONS = ['equality of floating-point results is exact: both sides run the same kernels on the same element values']
BUDGET = {'quick': {'shards': 16, 'examples': 1600, 'min_evaluations': 800},
          'thorough': {'shards': 16, 'examples': 16000, 'min_evaluations': 8000}}


def _eqnan(a, b):
    a, b = np.asarray(a), np.asarray(b)
    if a.shape != b.shape:
        return False
    if a.dtype.kind in 'fc' or b.dtype.kind in 'fc':
        return bool(np.array_equal(a.astype(np.float64), b.astype(np.float64), equal_nan=True))
    return bool(np.array_equal(a, b))


def _padded(els, inserts):
    """insert inert rows: inserts = list of [position, element]; returns (padded, keep positions)"""
    out = [(e, True) for e in els]
    for pos, el in sorted(inserts, key=lambda t: -t[0]):
        pos = min(pos, len(out))
        out.insert(pos, (el, False))
    padded = [e for e, _ in out]
    keep = [i for i, (_, k) in enumerate(out) if k]
    return padded, keep


def evaluate(case):
    import pandas as pd
    import spatialpandas as sp
    kind, subtype, els = case['kind'], case['subtype'], case['elements']
    if kind == 'point' and not subtype.startswith('float'):
        inserts = [[p, None] for p, e in case['inserts']]
    else:
        inserts = [[p, e] for p, e in case['inserts']]
    padded, keep = _padded(els, inserts)
    inert_pos = [i for i in range(len(padded)) if i not in set(keep)]
    B = ['C17', kind]
    fails = []
    A = lib(B + ['construct'], model.build_array, kind, els, subtype)
    P = lib(B + ['construct'], model.reback, kind, padded, subtype, case.get('reback', 'plain'))
    keep_a = np.array(keep, dtype=np.int64)
    n_real = sum(1 for e in els if not model.is_inert(kind, e))
    labels = [kind, subtype, f'inert{min(len(inserts), 5)}']
    if inserts and all(model.is_inert(kind, e) for e in els):
        labels.append('all-rows-inert')

    def cmp(name, fa, fp, inert_pred=None, restrict=True):
        a = lib(B + [name, 'original'], fa)
        p = lib(B + [name, 'padded'], fp)
        pr = np.asarray(p)[keep_a] if restrict else p
        if not _eqnan(a, pr):
            fails.append((B + [name, 'changed-by-inert-rows'], f'A={els} inserts={inserts}: {np.asarray(a).tolist()} vs {np.asarray(pr).tolist()}'))
        if inert_pred is not None:
            for i in inert_pos:
                if not inert_pred(np.asarray(p)[i], padded[i]):
                    fails.append((B + [name, 'inert-row-value'], f'row {i} ({padded[i]}) -> {np.asarray(p)[i].tolist() if hasattr(np.asarray(p)[i], "tolist") else p[i]}'))
                    break

    cmp('bounds', lambda: A.bounds, lambda: P.bounds, lambda v, e: bool(np.isnan(v).all()))
    for nm in ('total_bounds', 'total_bounds_x', 'total_bounds_y'):
        cmp(nm, lambda nm=nm: np.array(getattr(A, nm)), lambda nm=nm: np.array(getattr(P, nm)), restrict=False)
    nan_if_missing = (lambda v, e: (math.isnan(v) if e is None else True))
    if kind not in ('point', 'multipoint'):
        cmp('length', lambda: A.length, lambda: P.length, nan_if_missing)
    else:
        cmp('length', lambda: A.length, lambda: P.length)
    if kind in ('polygon', 'multipolygon'):
        cmp('area', lambda: A.area, lambda: P.area, nan_if_missing)
    else:
        cmp('area', lambda: A.area, lambda: P.area)
    box = tuple(case['box'])
    cmp('intersects_bounds', lambda: A.intersects_bounds(box), lambda: P.intersects_bounds(box), lambda v, e: not bool(v))
    if len(padded):
        # the `inds` form naming every row, inert ones included (internal callers never hand inert rows to it, users can)
        allrows = np.arange(len(padded) - 1, -1, -1).astype(np.uint32)
        r = np.asarray(lib(B + ['intersects_bounds-inds'], P.intersects_bounds, box, allrows))
        if any(r[len(padded) - 1 - i] for i in inert_pos):
            fails.append((B + ['intersects_bounds-inds', 'inert-row-value'], f'padded={padded} box={box} inds=reversed range -> {r.tolist()}'))
        if [bool(r[len(padded) - 1 - k]) for k in keep] != [bool(v) for v in A.intersects_bounds(box)]:
            fails.append((B + ['intersects_bounds-inds', 'changed-by-inert-rows'], f'padded={padded} box={box}'))
    tb = [float(v) for v in case['hd_bounds']]
    if len(els):
        cmp('hilbert_distance', lambda: A.hilbert_distance(list(tb), case['p']), lambda: P.hilbert_distance(list(tb), case['p']))
    if kind == 'point':
        shape = model.build_array('polygon', [case['shape']], 'float64')[0]
        cmp('intersects', lambda: A.intersects(shape), lambda: P.intersects(shape), lambda v, e: not bool(v))
        inds = np.arange(len(padded) - 1, -1, -1).astype(np.uint32)
        r = np.asarray(lib(B + ['intersects-inds'], P.intersects, shape, inds))
        if any(r[len(padded) - 1 - i] for i in inert_pos):
            fails.append((B + ['intersects-inds', 'inert-row-value'], f'{r.tolist()}'))
    # spatial index
    ps = case['page_size']
    keepmap = {k: j for j, k in enumerate(keep)}
    if len(padded):
        sa = model.build_array(kind, els, subtype).build_sindex(page_size=ps, p=case['p']).sindex if len(els) else None
        sp_ = lib(B + ['build_sindex'], lambda: model.reback(kind, padded, subtype, case.get('reback', 'plain')).build_sindex(page_size=ps, p=case['p']).sindex)
        got = sorted(int(v) for v in lib(B + ['sindex.intersects'], sp_.intersects, box))
        if any(g in inert_pos for g in got):
            fails.append((B + ['sindex.intersects', 'inert-row-reported'], f'padded={padded} box={box} got={got}'))
        exp = sorted(int(v) for v in sa.intersects(box)) if sa is not None else []
        if sorted(keepmap[g] for g in got if g in keepmap) != exp:
            fails.append((B + ['sindex.intersects', 'changed-by-inert-rows'], f'A={els} inserts={inserts} box={box} page_size={ps}: {exp} vs {got} (mapped)'))
        cov, ov = lib(B + ['sindex.covers_overlaps'], sp_.covers_overlaps, box)
        if any(int(g) in inert_pos for g in list(cov) + list(ov)):
            fails.append((B + ['sindex.covers_overlaps', 'inert-row-reported'], f'padded={padded} box={box} covers={list(map(int, cov))} overlaps={list(map(int, ov))}'))
        if sa is not None:
            c0, o0 = sa.covers_overlaps(box)
            if sorted(keepmap[int(g)] for g in cov if int(g) in keepmap) != sorted(map(int, c0)) or \
                    sorted(keepmap[int(g)] for g in ov if int(g) in keepmap) != sorted(map(int, o0)):
                fails.append((B + ['sindex.covers_overlaps', 'changed-by-inert-rows'], f'A={els} inserts={inserts} box={box} page_size={ps}'))
        tbp = tuple(sp_.total_bounds)
        if not model.same_row(tbp, tuple(P.total_bounds)) and not any(
                any(v != v for v in r) and not all(v != v for v in r) for r in np.asarray(P.bounds)):
            fails.append((B + ['sindex.total_bounds'], f'{tbp} vs {tuple(P.total_bounds)}'))
    # cx: array / series / frame, with and without index
    x0, y0, x1, y1 = box
    if x0 != x1 and y0 != y1 or kind in ('point', 'multipoint'):
        lab_a = [f'r{i}' for i in range(len(els))]
        lab_p = [None] * len(padded)
        for j, k in enumerate(keep):
            lab_p[k] = lab_a[j]
        for i in inert_pos:
            lab_p[i] = f'inert{i}'
        exp_sel = [lab_a[i] for i in np.nonzero(np.asarray(A.intersects_bounds(box)))[0]]
        for indexed in (False, True):
            Pa = model.reback(kind, padded, subtype, case.get('reback', 'plain'))
            if indexed:
                Pa.build_sindex(page_size=ps, p=case['p'])
            cont = case.get('container', 'series')
            tag = ['cx', cont, 'indexed' if indexed else 'no-index']
            if cont == 'array':
                sel = lib(B + tag, lambda: Pa.cx[x0:x1, y0:y1])
                got_c = model.to_canonical(sel)
                exp_c = [model.to_canonical(A)[i] for i in np.nonzero(np.asarray(A.intersects_bounds(box)))[0]]
                if got_c != exp_c:
                    fails.append((B + tag + ['changed-by-inert-rows'], f'padded={padded} box={box} selected={got_c} expected={exp_c}'))
                continue
            if cont == 'series':
                obj = sp.GeoSeries(Pa, index=lab_p)
            else:
                obj = sp.GeoDataFrame({'v': np.arange(len(padded)), 'g': Pa}, index=lab_p)
            sel = lib(B + tag, lambda: obj.cx[x0:x1, y0:y1])
            got_l = list(sel.index)
            if any(str(g).startswith('inert') for g in got_l):
                fails.append((B + tag + ['inert-row-selected'], f'padded={padded} box={box} page_size={ps} selected={got_l}'))
            elif got_l != exp_sel:
                fails.append((B + tag + ['changed-by-inert-rows'], f'padded={padded} box={box} page_size={ps} selected={got_l} expected={exp_sel}'))
        labels.append('cx')
    # sjoin
    sj = case.get('sjoin')
    if sj and kind != 'point':
        # A is the RIGHT frame (shapes), points on the left
        lp = model.build_array('point', sj['points'], 'float64')
        for how in sj['hows']:
            left = sp.GeoDataFrame({'a': np.arange(len(sj['points'])), 'pt': lp}, index=[f'L{i}' for i in range(len(sj['points']))])
            ra = sp.GeoDataFrame({'b': np.arange(len(els)), 'g': A}, index=[f'R{i}' for i in range(len(els))])
            rp_idx = [None] * len(padded)
            for j, k in enumerate(keep):
                rp_idx[k] = f'R{j}'
            for i in inert_pos:
                rp_idx[i] = f'inertR{i}'
            bcol = np.full(len(padded), -1)
            bcol[keep_a] = np.arange(len(els))
            rp = sp.GeoDataFrame({'b': bcol, 'g': P}, index=rp_idx)
            if len(els) == 0 or len(padded) == 0:
                continue
            ja = lib(B + ['sjoin', how, 'original'], sp.sjoin, left, ra, how=how)
            jp = lib(B + ['sjoin', how, 'inert-right'], sp.sjoin, left, rp, how=how)
            ka = _join_rows(ja, how)
            kp = _join_rows(jp, how)
            matched_inert = [r for r in kp if any(str(v).startswith('inertR') for v in r) and not (how == 'right' and r[1] is None)]
            if how == 'right':
                # unmatched right rows (incl. inert ones) are kept once, with missing left values
                bad = [r for r in kp if str(r[0]).startswith('inertR') and r[1] is not None]
                kp2 = sorted(r for r in kp if not str(r[0]).startswith('inertR'))
                if bad:
                    fails.append((B + ['sjoin', how, 'inert-right-row-matched'], f'{bad[:3]}'))
            else:
                kp2 = sorted(kp)
                if matched_inert:
                    fails.append((B + ['sjoin', how, 'inert-right-row-matched'], f'{matched_inert[:3]}'))
            if kp2 != sorted(ka) and not (how != 'right' and matched_inert):
                fails.append((B + ['sjoin', how, 'changed-by-inert-right-rows'], f'A={els} inserts={inserts} points={sj["points"]}: {sorted(ka)} vs {kp2}'))
        labels.append('sjoin-right-inert')
    if sj and kind == 'point':
        # A is the LEFT frame (points); right frame = shapes from the case
        rs = model.build_array('polygon', sj['shapes'], 'float64')
        right = sp.GeoDataFrame({'b': np.arange(len(sj['shapes'])), 'g': rs}, index=[f'R{i}' for i in range(len(sj['shapes']))])
        la = sp.GeoDataFrame({'a': np.arange(len(els)), 'pt': A}, index=[f'L{i}' for i in range(len(els))])
        lp_idx = [None] * len(padded)
        for j, k in enumerate(keep):
            lp_idx[k] = f'L{j}'
        for i in inert_pos:
            lp_idx[i] = f'inertL{i}'
        acol = np.full(len(padded), -1)
        acol[keep_a] = np.arange(len(els))
        lpf = sp.GeoDataFrame({'a': acol, 'pt': P}, index=lp_idx)
        if len(els) and len(sj['shapes']):
            for how in sj['hows']:
                ja = lib(B + ['sjoin', how, 'original'], sp.sjoin, la, right, how=how)
                jp = lib(B + ['sjoin', how, 'inert-left'], sp.sjoin, lpf, right, how=how)
                ka, kp = _join_rows(ja, how), _join_rows(jp, how)
                if how == 'left':
                    bad = [r for r in kp if str(r[0]).startswith('inertL') and r[1] is not None]
                    kp2 = sorted(r for r in kp if not str(r[0]).startswith('inertL'))
                else:
                    bad = [r for r in kp if any(str(v).startswith('inertL') for v in r)]
                    kp2 = sorted(r for r in kp if not any(str(v).startswith('inertL') for v in r))
                if bad:
                    fails.append((B + ['sjoin', how, 'inert-left-row-matched'], f'{bad[:3]}'))
                if kp2 != sorted(ka):
                    fails.append((B + ['sjoin', how, 'changed-by-inert-left-rows'], f'A={els} inserts={inserts}: {sorted(ka)} vs {kp2}'))
        labels.append('sjoin-left-inert')
    # Dask
    sizes = case.get('partitions')
    if sizes and len(padded) and (x0 != x1 and y0 != y1):
        lab_p = [f'r{keepmap[i]}' if i in keepmap else f'inert{i}' for i in range(len(padded))]
        gp = sp.GeoDataFrame({'v': np.arange(len(padded)), 'g': model.reback(kind, padded, subtype, 'plain')}, index=lab_p)
        ddf = dasktools.ddf_from_sizes(gp, sizes)
        parts = dasktools.split_frame(gp, sizes)
        if any(len(p_) and all(str(i).startswith('inert') for i in p_.index) for p_ in parts):
            labels.append('dask-all-inert-partition')
        dt = lib(B + ['dask.total_bounds'], lambda: tuple(ddf['g'].total_bounds))
        if not model.same_row(dt, tuple(A.total_bounds)):
            fails.append((B + ['dask.total_bounds', 'changed-by-inert-rows'], f'{dt} vs {tuple(A.total_bounds)} sizes={sizes} padded={padded}'))
        exp_sel = [f'r{i}' for i in np.nonzero(np.asarray(A.intersects_bounds(box)))[0]]
        sel = lib(B + ['dask.cx'], lambda: ddf.cx[x0:x1, y0:y1].compute())
        got_l = list(sel.index)
        if any(str(g).startswith('inert') for g in got_l):
            fails.append((B + ['dask.cx', 'inert-row-selected'], f'padded={padded} sizes={sizes} box={box} selected={got_l}'))
        elif sorted(got_l) != sorted(exp_sel):
            fails.append((B + ['dask.cx', 'changed-by-inert-rows'], f'padded={padded} sizes={sizes} box={box} selected={got_l} expected={exp_sel}'))
        labels.append('dask')
    nt = bool(inserts) and n_real > 0
    return outcome(failures=fails, labels=labels, nontrivial=nt)


def _join_rows(df, how):
    """canonical (left label, right label) pairs of a join result"""
    out = []
    if how == 'right':
        for lab, l in zip(df.index, df['index_left']):
            out.append((lab, None if (isinstance(l, float) and l != l) or l is None else l))
    else:
        for lab, r in zip(df.index, df['index_right']):
            out.append((lab, None if (isinstance(r, float) and r != r) or r is None else r))
    return out


# ----------------------------------------------------------------------------- strategy
@st.composite
def _case(draw):
    kind = draw(st.sampled_from(model.KINDS))
    subtype = draw(gen.subtypes)
    n = draw(st.integers(0, 8))
    arbitrary = subtype == 'float64' and draw(st.booleans())
    els = []
    for _ in range(n):
        e = gen.no_leafless(draw(gen.any_element(kind, subtype, False, False)))
        if arbitrary and e:
            e = _jitter(draw, e)
        if draw(st.integers(0, 9)) == 0:
            e = None
        els.append(e)
    nan = float('nan')
    inert_types = [None, None, [nan, nan] if kind == 'point' else []]
    if subtype.startswith('float') and kind != 'point':
        # "without any finite coordinate": elements whose coordinates are all NaN are inert as well
        inert_types.append({'multipoint': [nan, nan], 'line': [nan, nan, nan, nan], 'ring': [nan, nan, nan, nan],
                            'multiline': [[nan, nan, nan, nan]], 'polygon': [[nan, nan, nan, nan, nan, nan]],
                            'multipolygon': [[[nan, nan, nan, nan, nan, nan]]]}[kind])
    mode = draw(st.sampled_from(['few', 'few', 'run', 'ends', 'many']))
    ps = draw(st.sampled_from([1, 2, 3, 4, 8, 512]))
    if mode == 'few':
        ins = [[draw(st.integers(0, n)), draw(st.sampled_from(inert_types))] for _ in range(draw(st.integers(0, 3)))]
    elif mode == 'run':
        pos = draw(st.integers(0, n))
        ins = [[pos, draw(st.sampled_from(inert_types))] for _ in range(ps if ps <= 8 else 3)]
    elif mode == 'ends':
        ins = [[0, draw(st.sampled_from(inert_types))], [n, draw(st.sampled_from(inert_types))]]
    else:
        ins = [[draw(st.integers(0, n)), draw(st.sampled_from(inert_types))] for _ in range(draw(st.integers(4, 10)))]
    fl = [v for e in els if e is not None for v in model.flat_coords(kind, e) if v == v]
    box = draw(gen.feature_boxes(fl, 1, allow_degenerate=False)) if fl else [0.0, 0.0, 1.0, 1.0]
    box = [min(box[0], box[2]), min(box[1], box[3]), max(box[0], box[2]), max(box[1], box[3])]
    total = n + len(ins)
    case = {'kind': kind, 'subtype': subtype, 'elements': els, 'inserts': ins, 'box': box, 'page_size': ps,
            'p': draw(st.integers(1, 16)), 'hd_bounds': [-8.0, -8.0, 8.0, 8.0],
            'reback': draw(st.sampled_from(model.REBACKINGS)), 'container': draw(st.sampled_from(['array', 'series', 'frame'])),
            'shape': [[-1, -1, 3, -1, 3, 3, -1, 3, -1, -1]]}
    if draw(st.integers(0, 2)) == 0 and total:
        case['partitions'] = draw(gen.partition_splits(total, 4))
    if draw(st.integers(0, 2)) == 0:
        hows = draw(st.lists(st.sampled_from(['inner', 'left', 'right']), min_size=1, max_size=2, unique=True))
        if kind == 'point':
            case['sjoin'] = {'shapes': [[[0, 0, 4, 0, 4, 4, 0, 4, 0, 0]], [[-5, -5, 1, -5, 1, 1, -5, 1, -5, -5]], [[10, 10, 11, 10, 11, 11, 10, 10]]], 'hows': hows}
        else:
            pts = [[draw(st.integers(-4, 6)) + 0.5, draw(st.integers(-4, 6)) + 0.25] for _ in range(draw(st.integers(1, 6)))]
            if kind in ('polygon', 'multipolygon'):
                case['sjoin'] = {'points': pts, 'hows': hows}
            else:
                pts = [[float(draw(st.integers(-4, 6))), float(draw(st.integers(-4, 6)))] for _ in range(draw(st.integers(1, 6)))]
                case['sjoin'] = {'points': pts, 'hows': hows}
    return case


def _jitter(draw, e):
    if isinstance(e, list) and e and isinstance(e[0], list):
        return [_jitter(draw, x) for x in e]
    return [v + draw(st.floats(-0.5, 0.5, allow_nan=False, width=64)) if isinstance(v, (int, float)) and v == v else v for v in e]


def strategy(tier):
    return _case()
