"""C14 - length, area and boundary are the exact measures of each element."""
import math

import numpy as np
from hypothesis import strategies as st

from .. import gen, model, oracle_geom as og
from ..harness import lib, outcome

PROPERTY = 'C14'
LEVEL = 'exploration'
RULE = ('E1 (Hypothesis): arrays of all 7 kinds x 5 subtypes with "any structure" elements (0..6 vertices per ring/line, '
        'closed rings, degenerate rings with <3 vertices, collinear zero-area rings, 0..4 rings, 0..3 parts, repeated vertices, '
        'NaN/inf vertices in line kinds), valid ring-oriented polygons with holes, missing/empty elements, re-backed buffers, '
        'coordinates on a small lattice (with dyadic fractions) or integers up to the exactness bound. Oracle: exact integer '
        'shoelace per ring (compared exactly), segment lengths exact when axis-parallel/Pythagorean else 1e-12 relative '
        '(float32 arrays: float32 accuracy), boundary = list of rings, missing -> NaN / missing. Also scalar == array, '
        'GeoSeries forms, boundary.length == length, integer translation invariance. Non-trivial: element with >= 1 ring/line of '
        '>= 2 vertices next to a missing element or in a re-backed array or multi-ring/multi-part. distinct = distinct cases.')
ASSUMPTIONS = ['rings are stored closed (first vertex repeated last)', 'coordinates within the exactness bound so that shoelace products are exact']
BUDGET = {'quick': {'shards': 16, 'examples': 4800, 'min_evaluations': 2000},
          'thorough': {'shards': 16, 'examples': 96000, 'min_evaluations': 40000}}
TOL = {'float32': 2e-6}


def _cmp_len(got, exact, ref, subtype, nseg):
    if isinstance(ref, float) and math.isnan(ref):
        return math.isnan(got)
    if math.isnan(got):
        return False
    if exact:
        return float(got) == float(ref)
    return model.same_num(got, ref, TOL.get(subtype, 1e-12))


def _rings_of(kind, el):
    if el is None:
        return None
    if kind == 'polygon':
        return [list(r) for r in el]
    return [list(r) for poly in el for r in poly]


def evaluate(case):
    import spatialpandas as sp
    kind, subtype, els = case['kind'], case['subtype'], case['elements']
    B = ['C14', kind]
    fails = []
    arr = lib(B + ['construct'], model.reback, kind, els, subtype, case.get('reback', 'plain'))
    canon = model.to_canonical(arr)
    els_n = [None if e is None else _denorm(e) for e in canon]   # numbers (floats for nan/inf)
    n = len(els)
    has_missing = any(e is None for e in els)
    tag = ['with-missing'] if has_missing else []

    ln = np.asarray(lib(B + ['length'] + tag, lambda: arr.length), dtype=np.float64)
    ar = np.asarray(lib(B + ['area'] + tag, lambda: arr.area), dtype=np.float64)
    if ln.shape != (n,) or ar.shape != (n,):
        fails.append((B + ['shape'], f'length {ln.shape} area {ar.shape} n={n}'))
        return outcome(failures=fails, labels=[kind], nontrivial=True)
    refs = []
    for i, e in enumerate(els_n):
        exact, rl = model.ref_length(kind, e)
        ra = model.ref_area(kind, e)
        refs.append((exact, rl, ra))
        if kind == 'point' and e is None:
            # C14: "a missing element gives NaN" -- PointArray.length/area return zeros for every slot by design of
            # the statement "points and multipoints length 0"; the two clauses meet only here, asserted as NaN-or-0
            if not (math.isnan(ln[i]) or ln[i] == 0) or not (math.isnan(ar[i]) or ar[i] == 0):
                fails.append((B + ['missing-point-measure'], f'length={ln[i]} area={ar[i]}'))
            continue
        if kind == 'multipoint' and e is None:
            if not (math.isnan(ln[i]) or ln[i] == 0) or not (math.isnan(ar[i]) or ar[i] == 0):
                fails.append((B + ['missing-multipoint-measure'], f'length={ln[i]} area={ar[i]}'))
            continue
        if kind in ('line', 'ring', 'multiline') and e is None:
            if not math.isnan(ln[i]):
                fails.append((B + ['length', 'missing-not-nan'], f'i={i} length={ln[i]}'))
            if not (math.isnan(ar[i]) or ar[i] == 0):
                fails.append((B + ['area', 'missing-line'], f'i={i} area={ar[i]}'))
            continue
        if not _cmp_len(ln[i], exact, rl, subtype, 0):
            fails.append((B + ['length', 'wrong' if e is not None else 'missing-not-nan'] + tag,
                          f'i={i} el={e} got={ln[i]!r} expected={rl!r} exact={exact} subtype={subtype} reback={case.get("reback")}'))
        if not model.same_num(ar[i], ra):
            fails.append((B + ['area', 'wrong' if e is not None else 'missing-not-nan'] + tag,
                          f'i={i} el={e} got={ar[i]!r} expected={ra!r} subtype={subtype} reback={case.get("reback")}'))
    # ring-oriented valid polygons: area = |shell| - sum |holes|
    for i in case.get('oriented_valid', []):
        e = els_n[i]
        polys = [e] if kind == 'polygon' else e
        expect = sum(abs(model.ring_area2(p[0])) - sum(abs(model.ring_area2(h)) for h in p[1:]) for p in polys) / 2
        if not model.same_num(ar[i], expect):
            fails.append((B + ['area', 'shell-minus-holes'], f'i={i} el={e} got={ar[i]} expected={expect}'))
    # scalar forms
    for i, e in enumerate(els_n):
        if e is None or not model.has_leaf(e) and e != []:
            continue
        sc = lib(B + ['getitem'], arr.__getitem__, i)
        sl = lib(B + ['scalar.length'], lambda: sc.length)
        sa = lib(B + ['scalar.area'], lambda: sc.area)
        exact, rl, ra = refs[i]
        # arr[i] rebuilds the scalar from Python numbers (float32 -> float64), so the scalar is measured in float64
        if not _cmp_len(float(sl), exact, rl, 'float64' if subtype == 'float32' else subtype, 0):
            fails.append((B + ['scalar.length', 'wrong'], f'el={e} got={sl!r} expected={rl!r}'))
        if not model.same_num(sa, ra):
            fails.append((B + ['scalar.area', 'wrong'], f'el={e} got={sa!r} expected={ra!r}'))
        if kind in ('polygon', 'multipolygon'):
            sb = lib(B + ['scalar.boundary'], lambda: sc.boundary)
            got_b = model.canon_el(sb.data.as_py())
            exp_b = model.canon_el(_rings_of(kind, e))
            if type(sb).__name__ != 'MultiLine' or got_b != exp_b:
                fails.append((B + ['scalar.boundary', 'wrong'], f'el={e} boundary={got_b} expected={exp_b} type={type(sb).__name__}'))
    # boundary of arrays
    if kind in ('polygon', 'multipolygon'):
        bd = lib(B + ['boundary'] + tag, lambda: arr.boundary)
        got_b = model.to_canonical(bd)
        exp_b = [model.canon_el(_rings_of(kind, e)) for e in els_n]
        if type(bd).__name__ != 'MultiLineArray' or len(got_b) != n:
            fails.append((B + ['boundary', 'type-or-length'], f'{type(bd).__name__} len={len(got_b)}'))
        else:
            for i, (g, x) in enumerate(zip(got_b, exp_b)):
                if g != x:
                    what = 'missing-lost' if x is None else 'wrong'
                    fails.append((B + ['boundary', what], f'i={i} el={els_n[i]} boundary={g} expected={x} reback={case.get("reback")}'))
                    break
            bl = np.asarray(lib(B + ['boundary.length'], lambda: bd.length))
            for i in range(n):
                if not model.same_num(bl[i], ln[i]) and got_b[i] == exp_b[i]:
                    fails.append((B + ['boundary.length'], f'i={i} boundary.length={bl[i]} length={ln[i]}'))
                    break
    # GeoSeries forms
    idx = [f'i{(3 * i) % 7}' for i in range(n)]
    ser = sp.GeoSeries(arr, index=idx)
    for name, ref in (('area', ar), ('length', ln)):
        s = lib(B + ['GeoSeries.' + name], lambda: getattr(ser, name))
        if list(s.index) != idx or not all(model.same_num(a, b) for a, b in zip(s.values, ref)):
            fails.append((B + ['GeoSeries.' + name], f'{s.values.tolist()} vs {ref.tolist()}'))
    # translation invariance (integer vector; stays inside the exactness bound by construction of the generator)
    t = case.get('translate')
    if t and not any(isinstance(v, str) for v in _flat(canon)):
        tels = [model.translate(kind, e, t[0], t[1]) for e in els_n]
        tarr = lib(B + ['construct'], model.reback, kind, tels, subtype, 'plain')
        tl = np.asarray(tarr.length, dtype=np.float64)
        ta = np.asarray(tarr.area, dtype=np.float64)
        for i in range(n):
            exact = refs[i][0]
            if not (model.same_num(tl[i], ln[i]) if exact else model.same_num(tl[i], ln[i], TOL.get(subtype, 1e-12))):
                fails.append((B + ['translation', 'length'], f'i={i} el={els_n[i]} t={t} {ln[i]!r} -> {tl[i]!r}'))
                break
            if not model.same_num(ta[i], ar[i]):
                fails.append((B + ['translation', 'area'], f'i={i} el={els_n[i]} t={t} {ar[i]!r} -> {ta[i]!r}'))
                break
    labels = [kind, subtype, 'reback:' + case.get('reback', 'plain')] + tag
    rich = any(e is not None and sum(1 for p in model.parts(kind, e) if len(p) >= 4) >= 1 for e in els_n)
    multi = any(e is not None and sum(1 for p in model.parts(kind, e) if len(p) >= 4) >= 2 for e in els_n)
    if multi:
        labels.append('multi-ring-or-part')
    if case.get('oriented_valid'):
        labels.append('valid-oriented-polygon')
    if any(isinstance(v, str) for v in _flat(canon)):
        labels.append('non-finite-vertex')
    nt = rich and (has_missing or case.get('reback', 'plain') != 'plain' or multi)
    return outcome(failures=fails, labels=labels, nontrivial=nt)


def _flat(e):
    if isinstance(e, list):
        for x in e:
            yield from _flat(x)
    elif e is not None:
        yield e


def _denorm(e):
    if isinstance(e, list):
        return [_denorm(x) for x in e]
    if isinstance(e, str):
        return float(e)
    return e


@st.composite
def _case(draw):
    wide = draw(st.integers(0, 2)) == 0
    kind = draw(st.sampled_from(model.KINDS + ['polygon', 'multipolygon', 'multiline']))
    subtype = draw(gen.subtypes)
    nonfinite = kind in ('line', 'multiline') and subtype.startswith('float')
    n = draw(st.one_of(st.integers(0, 3), st.integers(0, 7)))
    lim = gen.BOUND[subtype] // 2
    els, oriented_valid = [], []
    for i in range(n):
        r = draw(st.integers(0, 9))
        if r == 0:
            els.append(None)
        elif r == 1:
            els.append(([float('nan'), float('nan')] if subtype.startswith('float') else None) if kind == 'point' else [])
        elif r in (2, 3) and kind in ('polygon', 'multipolygon'):
            if kind == 'polygon':
                rings, _ = draw(gen.valid_polygons())
                polys = [rings]
            else:
                polys, _ = draw(gen.valid_multipolygons())
            # orient: shells ccw, holes cw
            fixed = []
            for rings in polys:
                rr = []
                for k, ring in enumerate(rings):
                    a2 = og.area2(ring)
                    want_ccw = (k == 0)
                    rr.append(ring if (a2 > 0) == want_ccw else og._rev(ring))
                fixed.append(rr)
            els.append(fixed[0] if kind == 'polygon' else fixed)
            oriented_valid.append(i)
        else:
            e = draw(gen.any_element(kind, subtype, nonfinite, False))
            if wide:
                e = _widen(draw, kind, e, lim)
            if kind in ('multiline', 'polygon') and isinstance(e, list) and e and draw(st.integers(0, 4)) == 0:
                # more parts than coordinates: a run of empty lines / rings in front (offsets arrays longer than the values)
                e = [[] for _ in range(draw(st.integers(1, 12)))] + e
            els.append(e)
    t = [draw(st.integers(-7, 7)), draw(st.integers(-7, 7))] if draw(st.booleans()) else None
    return {'kind': kind, 'subtype': subtype, 'elements': els, 'reback': draw(st.sampled_from(model.REBACKINGS)),
            'translate': t, 'oriented_valid': oriented_valid}


def _widen(draw, kind, e, lim):
    """exact integer dilation + translation of one element, staying within +-lim (fractions dropped)"""
    fl = [v for v in _flat(e)]
    if not fl or any(isinstance(v, float) for v in fl):
        return e
    ext = max(1, max(abs(v) for v in fl))
    k = draw(st.integers(0, max(0, int(math.log2(max(1, (lim - 8) // ext))))))
    m = 1 << k
    room = max(0, lim - 8 - ext * m)
    tx, ty = draw(st.integers(-room, room)), draw(st.integers(-room, room))
    return gen.apply_xf(kind, e, {'m': m, 'tx': tx, 'ty': ty, 'q': 1})


def strategy(tier):
    return _case()
