"""C02 - point-versus-shape intersects is exact (the predicate behind sjoin)."""
import itertools

import numpy as np
from hypothesis import strategies as st

from .. import gen, model, oracle_geom as og
from ..harness import lib, new_result, outcome, safe_evaluate
from .c01 import hole_catalogue, lattice_lines, lattice_rings

PROPERTY = 'C02'
LEVEL = 'exploration'
RULE = ('E3: every simple triangle/quadrilateral (both directions) and polyline of <=3 vertices on the GxG lattice and a '
        'catalogue of polygons with holes, each against EVERY point of the half-integer lattice [-1, G]^2 held in one '
        'PointArray (so every ray through a vertex / along a horizontal edge and every collinear-beyond-the-end point is '
        'present), array form for all, scalar / inds / GeoSeries forms on every 5th shape. E1 (Hypothesis): shapes of 7 kinds '
        '(valid polygons with holes, multi-part touching/far/nested, lines with repeated vertices) x subtypes of shape and '
        'of points x exact similarity transforms x the full half-step lattice around the shape + missing points + inds. '
        'Oracle: exact even-odd in/on/out classifier and exact on-segment test; truth asserted for in/out (and for all '
        'point/line kinds), form agreement asserted for every point including on-ring ones. Non-trivial: the point has '
        'the y of some vertex and lies left of the shape\'s max x, or is collinear with a segment but not on it. '
        'distinct = enumerated (shape,point) pairs + distinct E1 cases.')
RULE += (' Added after the seeded rounds: integer point lattices against float shapes shifted by half a unit; multilines with runs of empty lines (more parts than coordinates).')
ASSUMPTIONS = ['exact oracle vpbt/oracle_geom.py', 'polygons valid, holes opposite to shell, strictly inside, disjoint',
               'points exactly on a polygon ring: only agreement between forms is asserted']
SCOPE = {'quick': {'lattice': 3, 'hole_catalogue': True}, 'thorough': {'lattice': 4, 'hole_catalogue': True}}
EXHAUSTIVE = {'quick': True, 'thorough': True}
BUDGET = {'quick': {'shards': 16, 'examples': 1600, 'min_evaluations': 50000},
          'thorough': {'shards': 16, 'examples': 16000, 'min_evaluations': 500000}}


def grid_points(g):
    """g = {x0,y0,step,nx,ny} -> list of [x,y]"""
    out = []
    for i in range(g['nx']):
        for j in range(g['ny']):
            x, y = g['x0'] + i * g['step'], g['y0'] + j * g['step']
            out.append([x, y])
    return out


def _points_of(case):
    pts = grid_points(case['grid']) if case.get('grid') else []
    pts = pts + [list(p) if p is not None else None for p in case.get('points', [])]
    for pos in case.get('missing_at', []):
        pts.insert(min(pos, len(pts)), None)
    return pts


def _valid(case):
    k = case['shape_kind']
    el = case['shape']
    if k == 'polygon' and el:
        return og.valid_polygon([og.IL(r) for r in el])
    if k == 'multipolygon' and el:
        ip = [[og.IL(r) for r in poly] for poly in el if poly]
        return all(og.valid_polygon(p) for p in ip) and all(
            og.parts_compatible(ip[i], ip[j]) for i in range(len(ip)) for j in range(i + 1, len(ip)))
    return True


def nontrivial_points(kind, el, pts):
    """count of points satisfying the non-triviality rule for this shape"""
    segs = []
    vy = set()
    mx = None
    for part in model.parts(kind, el):
        p = list(zip(part[0::2], part[1::2]))
        for a in p:
            vy.add(a[1])
            mx = a[0] if mx is None else max(mx, a[0])
        segs.extend(zip(p[:-1], p[1:]))
    n = 0
    for q in pts:
        if q is None:
            continue
        x, y = q
        if y in vy and x <= mx:
            n += 1
            continue
        for (a, b) in segs:
            if a != b and (b[0] - a[0]) * (y - a[1]) - (b[1] - a[1]) * (x - a[0]) == 0 and not (
                    min(a[0], b[0]) <= x <= max(a[0], b[0]) and min(a[1], b[1]) <= y <= max(a[1], b[1])):
                n += 1
                break
    return n


def evaluate(case):
    try:
        if not _valid(case):
            return outcome(rejected=True)
    except ValueError:
        return outcome(rejected=True)
    kind, el = case['shape_kind'], case['shape']
    pts = _points_of(case)
    psub = case['point_subtype']
    B = ['C02', kind]
    fails = []
    labels = [kind, 'shape:' + case['shape_subtype'], 'pts:' + psub, 'reback:' + case.get('reback', 'plain')]
    import spatialpandas as sp
    sarr = lib(B + ['construct-shape'], model.reback, kind, [el], case['shape_subtype'], case.get('reback', 'plain'))
    shape = lib(B + ['getitem-shape'], sarr.__getitem__, 0)
    if shape is None:
        raise RuntimeError('harness: shape scalar is None')
    parr = lib(B + ['construct-points'], model.reback, 'point', pts, psub, case.get('preback', 'plain'))
    exp = [False if p is None else og.point_vs_shape(p[0], p[1], kind, el) for p in pts]
    whole = np.asarray(lib(B + ['array'], parr.intersects, shape))
    if whole.shape != (len(pts),):
        fails.append((B + ['array', 'shape'], f'{whole.shape} for {len(pts)} points'))
        return outcome(failures=fails, labels=labels, nontrivial=True)
    n_on = 0
    for i, (e, g) in enumerate(zip(exp, whole)):
        if e == 'on':
            n_on += 1
            continue
        if bool(g) != e:
            what = 'missing-point-true' if pts[i] is None else ('false-negative' if e else 'false-positive')
            fails.append((B + ['array', what], f'point={pts[i]} shape={el} expected={e} got={bool(g)} psub={psub} ssub={case["shape_subtype"]}'))
            break
    inds = case.get('inds')
    if inds is not None and len(pts):
        inds = [i % len(pts) for i in inds]
        for dt in (np.uint32, np.int64):
            r = np.asarray(lib(B + ['inds'], parr.intersects, shape, np.array(inds, dtype=dt)))
            if r.tolist() != [bool(whole[i]) for i in inds]:
                fails.append((B + ['inds'], f'inds={inds} got={r.tolist()} whole-selected={[bool(whole[i]) for i in inds]}'))
                break
    step = max(1, len(pts) // case.get('scalar_budget', 150))
    for i in range(0, len(pts), step):
        if pts[i] is None:
            continue
        ps = lib(B + ['getitem-point'], parr.__getitem__, i)
        r = lib(B + ['scalar'], ps.intersects, shape)
        if bool(r) != bool(whole[i]):
            fails.append((B + ['scalar-vs-array'], f'point={pts[i]} shape={el} scalar={bool(r)} array={bool(whole[i])} oracle={exp[i]}'))
            break
    idx = list(range(100, 100 + len(pts)))
    ser = lib(B + ['GeoSeries'], lambda: sp.GeoSeries(parr, index=idx).intersects(shape))
    if list(ser.index) != idx or ser.values.tolist() != whole.tolist():
        fails.append((B + ['geoseries'], 'GeoSeries.intersects differs from array form'))
    nt = nontrivial_points(kind, el, pts)
    if n_on:
        labels.append('has-on-ring-points')
    if any(p is None for p in pts):
        labels.append('has-missing-point')
    labels.extend(case.get('labels', []))
    return outcome(failures=fails, labels=labels, nontrivial=nt > 0)


# ----------------------------------------------------------------------------- E1
SHAPE_KINDS = ['point', 'multipoint', 'line', 'ring', 'multiline', 'polygon', 'polygon', 'multipolygon', 'multipolygon']


@st.composite
def _case(draw):
    kind = draw(st.sampled_from(SHAPE_KINDS))
    ssub = draw(gen.subtypes)
    psub = draw(gen.subtypes)
    base, labels = draw(gen.base_shapes(kind))
    base = gen.no_leafless(base)
    if kind == 'multiline' and base and draw(st.integers(0, 3)) == 0:
        # more parts than coordinates: a run of empty lines in front of (or behind) the real ones
        k = draw(st.integers(1, 8))
        base = ([[] for _ in range(k)] + base) if draw(st.booleans()) else (base + [[] for _ in range(k)])
        labels = labels + ['empty-lines-added']
    ext = gen.extent_of(kind, [base]) + 4
    # the transform must be valid for both subtypes: use the more restrictive one; half steps need fractions
    strict = min((ssub, psub), key=lambda s: gen.BOUND[s])
    frac = ssub.startswith('float') and psub.startswith('float')
    xf = draw(gen.transforms(strict, ext, frac_ok=frac))
    # an integer point array against a float shape whose coordinates no integer holds: the shape sits half a unit
    # to the right of the integer lattice the points come from (no conversion of the shape to the points' subtype
    # may make them meet)
    half = ssub.startswith('float') and psub.startswith('int') and draw(st.booleans())

    def mk(xf_):
        e = gen.apply_xf(kind, base, xf_)
        return gen.apply_xf(kind, e, {'m': 2, 'tx': 1, 'ty': 0, 'q': 2}) if half else e
    el = mk(xf)
    u = gen.unit(xf)
    if psub.startswith('float'):
        step = u / 2
        step = int(step) if step == int(step) else step
    else:
        step = int(u) // 2 if int(u) % 2 == 0 else int(u)
    fl = model.flat_coords(kind, el)
    if 'float32' in (ssub, psub) and fl:
        # float32 kernels multiply differences in float32: keep them exact
        mag = max(abs(v) for v in fl) + 4 * u
        fractional = isinstance(step, float) or xf['q'] > 1 or half
        if mag > (gen.BOUND_F32_FRAC if fractional else gen.BOUND['float32']):
            xf = {'m': 1, 'tx': 0, 'ty': 0, 'q': 1}
            el = mk(xf)
            u = 1
            step = 0.5 if psub.startswith('float') else 1
            fl = model.flat_coords(kind, el)
    if fl:
        bx0, bx1 = min(fl[0::2]), max(fl[0::2])
        by0, by1 = min(fl[1::2]), max(fl[1::2])
    else:
        bx0 = bx1 = by0 = by1 = 0
    nx = int((bx1 - bx0) / step) + 1 + 4
    ny = int((by1 - by0) / step) + 1 + 4
    # keep the lattice complete but bounded: if the shape is large, take a window that contains a vertex
    cap = 24
    ox = oy = 0
    if nx > cap:
        ox = draw(st.integers(0, nx - cap))
        nx = cap
    if ny > cap:
        oy = draw(st.integers(0, ny - cap))
        ny = cap
    x0 = bx0 - 2 * step + ox * step
    y0 = by0 - 2 * step + oy * step
    if psub.startswith('int'):
        x0, y0, step = int(x0), int(y0), int(step)
    grid = {'x0': x0, 'y0': y0, 'step': step, 'nx': nx, 'ny': ny}
    npts = nx * ny
    missing_at = draw(st.lists(st.integers(0, npts), max_size=2))
    inds = draw(st.one_of(st.none(), st.lists(st.integers(0, npts + 1), max_size=8)))
    return {'shape_kind': kind, 'shape_subtype': ssub, 'shape': el, 'point_subtype': psub, 'grid': grid,
            'points': [], 'missing_at': missing_at, 'inds': inds,
            'reback': draw(st.sampled_from(model.REBACKINGS)), 'preback': draw(st.sampled_from(model.REBACKINGS)),
            'labels': labels + [f'q{xf["q"]}', 'scaled' if xf['m'] > 1 else 'scale1'] + (['int-points-vs-half-shifted-shape'] if half else [])}


def strategy(tier):
    return _case()


# ----------------------------------------------------------------------------- E3
def enum_tasks(tier, seed):
    G = SCOPE[tier]['lattice']
    n = 8 if tier == 'quick' else 32
    tasks = []
    for fam in ('poly', 'line'):
        for c in range(n):
            tasks.append({'fam': fam, 'G': G, 'chunk': c, 'of': n, 'variant': c % 4})
    for c in range(2):
        tasks.append({'fam': 'holes', 'G': 5, 'chunk': c, 'of': 2, 'variant': c})
    return tasks


def run_enum_task(task):
    import vpbt.checks.c02 as me
    res = new_result()
    fam, G, variant = task['fam'], task['G'], task['variant']
    if fam == 'poly':
        shapes = lattice_rings(G)
        kind, ssub, psub = [('polygon', 'float64', 'float64'), ('multipolygon', 'int32', 'float64'),
                            ('polygon', 'float32', 'float32'), ('multipolygon', 'int16', 'float64')][variant]
        els = [[r] if kind == 'polygon' else [[r]] for r in shapes]
        step, lo, hi = 0.5, -1, G
    elif fam == 'line':
        shapes = lattice_lines(G)
        kind, ssub, psub = [('line', 'float64', 'float64'), ('multiline', 'int64', 'float32'),
                            ('ring', 'int16', 'float64'), ('multiline', 'float32', 'float64')][variant]
        els = [ln if kind != 'multiline' else [ln] for ln in shapes]
        step, lo, hi = 0.5, -1, G
    else:
        cat = hole_catalogue()
        kind, ssub, psub = [('polygon', 'float64', 'float64'), ('multipolygon', 'float32', 'float32')][variant]
        els = [rings if kind == 'polygon' else [rings] for rings in cat]
        step, lo, hi = 0.25, -0.5, 4.5
    els = els[task['chunk']::task['of']]
    nside = int((hi - lo) / step) + 1
    grid = {'x0': lo, 'y0': lo, 'step': step, 'nx': nside, 'ny': nside}
    pts = grid_points(grid)
    parr = model.build_array('point', pts, psub)
    ipts = [(og.I(p[0]), og.I(p[1])) for p in pts]
    sarr = model.build_array(kind, els, ssub)
    ev = nt = 0
    bad = []
    for si, el in enumerate(els):
        shape = sarr[si]
        got = np.asarray(parr.intersects(shape))
        if kind in ('polygon', 'multipolygon'):
            polys = [el] if kind == 'polygon' else el
            ip = [[og.IL(r) for r in poly] for poly in polys]
            exp = [og.pt_multipoly(x, y, ip) for x, y in ipts]
            mism = [i for i, (e, g) in enumerate(zip(exp, got)) if e != 'on' and (e == 'in') != bool(g)]
        else:
            ils = [og.IL(p) for p in model.parts(kind, el)]
            exp = [any(og.pt_line(x, y, c) for c in ils) for x, y in ipts]
            mism = [i for i, (e, g) in enumerate(zip(exp, got)) if e != bool(g)]
        ev += len(pts)
        nt += nontrivial_points(kind, el, pts)
        if mism:
            bad.append((si, None))
        elif si % 5 == 0:
            # scalar / inds / series forms through evaluate (full lattice)
            case = {'shape_kind': kind, 'shape_subtype': ssub, 'shape': el, 'point_subtype': psub, 'grid': grid,
                    'points': [], 'missing_at': [], 'inds': list(range(len(pts) - 1, -1, -3)), 'scalar_budget': 10 ** 6}
            out = safe_evaluate(me, case)
            for bb, dd in out['failures'][:1]:
                res['failures'].append({'bucket': bb, 'detail': dd, 'case': case})
    for si, _ in bad[:4]:
        case = {'shape_kind': kind, 'shape_subtype': ssub, 'shape': els[si], 'point_subtype': psub, 'grid': grid,
                'points': [], 'missing_at': [], 'inds': None}
        out = safe_evaluate(me, case)
        for bb, dd in out['failures'][:1]:
            res['failures'].append({'bucket': bb, 'detail': dd, 'case': case})
        if not out['failures']:
            res['failures'].append({'bucket': ['C02', kind, 'array', 'batch-only'], 'detail': f'shape {els[si]} disagreed in batch only', 'case': case})
    res['evaluations'] = ev
    res['nontrivial_count'] = nt
    res['labels'] = {f'enum:{fam}:G{G}:{kind}:{ssub}:pts-{psub}': ev}
    if els:
        res['samples'] = [{'shape_kind': kind, 'shape_subtype': ssub, 'shape': els[len(els) // 2], 'point_subtype': psub, 'grid': grid,
                           'note': f'one of {len(els)} shapes x {len(pts)} lattice points enumerated by this task'}]
        res['nt_samples'] = res['samples']
    return res
