"""C07 - the Hilbert curve mapping is a locality-preserving bijection."""
import numpy as np
from hypothesis import strategies as st

from .. import oracle_hilbert as oh
from ..harness import add_outcome, lib, new_result, outcome

PROPERTY = 'C07'
LEVEL = 'exploration'
RULE = ('E3: for each (n,p) in scope ALL 2^(n*p) distances are enumerated through the vectorised entry points and '
        'checked for range, bijection, both round trips, unit-step adjacency, refinement against order p-1, '
        'n=2 start/end cells and equality with an independent recursive construction of the classical curve; '
        'scalar entry points on all cells for small p. E1 (Hypothesis): cases (n,p,distances,cells) with p up to '
        '31 (n=2), 20 (n=3), 62 (n=1) and bit-pattern-biased values; same relations per item. '
        'Every (n,p,cell) is non-trivial; distinct = enumerated cells (distinct by construction) + distinct E1 cases.')
RULE += (' Added after the seeded rounds: vectorised entry points also fed every integer dtype that holds the values.')
ASSUMPTIONS = ['numpy int64 arithmetic (n*p <= 62)',
               'the n=2 reference curve in vpbt/oracle_hilbert.py (self-tested for bijection/adjacency/end points at every start)']
SCOPE = {'quick': {'n2_p': [1, 9], 'n3_p': [1, 5], 'n1_p': [1, 16]},
         'thorough': {'n2_p': [1, 11], 'n3_p': [1, 7], 'n1_p': [1, 22]}}
EXHAUSTIVE = {'quick': True, 'thorough': True}
BUDGET = {'quick': {'shards': 8, 'examples': 2400, 'min_evaluations': 1000},
          'thorough': {'shards': 16, 'examples': 48000, 'min_evaluations': 10000}}
MAXP = {1: 62, 2: 31, 3: 20}


def _hc():
    from spatialpandas.spatialindex import hilbert_curve as hc
    return hc


INT_DTYPES = [np.uint8, np.int8, np.uint16, np.int16, np.uint32, np.int32, np.uint64]


def _narrow_dtypes(maxv):
    """integer dtypes other than int64 that hold every value in [0, maxv]"""
    return [dt for dt in INT_DTYPES if np.iinfo(dt).max >= maxv]


def _as_int_list(a):
    return [int(v) for v in np.asarray(a).ravel()]


# ----------------------------------------------------------------------------- per-item relations
def _check_items(n, p, dists, cells, fails, scalar=True):
    hc = _hc()
    side = 1 << p
    total = 1 << (n * p)
    B = ['C07']
    if dists:
        d = np.array(dists, dtype=np.int64)
        C = lib(B + ['coordinates_from_distances'], hc.coordinates_from_distances, p, n, d)
        C = np.asarray(C)
        if C.shape != (len(d), n):
            fails.append((B + ['c_from_d', 'shape'], f'n={n} p={p} shape={C.shape}'))
            return
        if ((C < 0) | (C >= side)).any():
            i = int(np.nonzero(((C < 0) | (C >= side)).any(axis=1))[0][0])
            fails.append((B + ['c_from_d', 'range'], f'n={n} p={p} d={dists[i]} -> {C[i].tolist()}'))
        back = np.asarray(lib(B + ['distances_from_coordinates'], hc.distances_from_coordinates, p, C.copy()))
        if (back != d).any():
            i = int(np.nonzero(back != d)[0][0])
            fails.append((B + ['roundtrip', 'd-c-d'], f'n={n} p={p} d={dists[i]} -> {C[i].tolist()} -> {int(back[i])}'))
        # adjacency d, d+1
        nxt = d + 1
        ok = nxt < total
        if ok.any():
            C2 = np.asarray(hc.coordinates_from_distances(p, n, nxt[ok]))
            diff = np.abs(C2 - C[ok])
            badm = ~((diff.sum(axis=1) == 1) & (diff.max(axis=1) == 1))
            if badm.any():
                i = int(np.nonzero(badm)[0][0])
                fails.append((B + ['adjacency'], f'n={n} p={p} d={int(d[ok][i])}: {C[ok][i].tolist()} -> {C2[i].tolist()}'))
        # refinement p -> p-1
        if p > 1:
            par = np.asarray(hc.distances_from_coordinates(p - 1, (C >> 1).copy()))
            if (par != (d >> n)).any():
                i = int(np.nonzero(par != (d >> n))[0][0])
                fails.append((B + ['refinement'], f'n={n} p={p} d={dists[i]} cell={C[i].tolist()} parent-d={int(par[i])} != {dists[i] >> n}'))
        if n == 2:
            ref = np.array([oh.d2xy(p, int(v)) for v in dists], dtype=np.int64)
            if (ref != C).any():
                i = int(np.nonzero((ref != C).any(axis=1))[0][0])
                fails.append((B + ['reference', 'c_from_d'], f'p={p} d={dists[i]} lib={C[i].tolist()} ref={ref[i].tolist()}'))
        # the vectorised entry point gives the same cells whatever integer dtype the distances arrive in
        # (a dtype the function refuses is not a wrong answer)
        for dt in _narrow_dtypes(max(dists)):
            try:
                Cd = hc.coordinates_from_distances(p, n, d.astype(dt))
            except Exception:  # noqa: BLE001
                continue
            if _as_int_list(Cd) != _as_int_list(C):
                fails.append((B + ['input-dtype', 'c_from_d'], f'n={n} p={p} d={dists} as {np.dtype(dt).name}: {np.asarray(Cd).tolist()} vs int64 {C.tolist()}'))
                break
        if scalar:
            for i, v in enumerate(dists[:16]):
                sc = lib(B + ['coordinate_from_distance'], hc.coordinate_from_distance, p, n, int(v))
                if [int(a) for a in sc] != C[i].tolist():
                    fails.append((B + ['scalar-vs-vector', 'c_from_d'], f'n={n} p={p} d={v} scalar={list(map(int, sc))} vec={C[i].tolist()}'))
                    break
    if cells:
        X = np.array(cells, dtype=np.int64).reshape(len(cells), n)
        keep = X.copy()
        D = np.asarray(lib(B + ['distances_from_coordinates'], hc.distances_from_coordinates, p, X))
        if (X != keep).any():
            fails.append((B + ['mutates-input', 'distances_from_coordinates'], f'n={n} p={p}'))
            X = keep.copy()
        if ((D < 0) | (D >= total)).any():
            i = int(np.nonzero((D < 0) | (D >= total))[0][0])
            fails.append((B + ['d_from_c', 'range'], f'n={n} p={p} cell={cells[i]} -> {int(D[i])}'))
        else:
            back = np.asarray(hc.coordinates_from_distances(p, n, D))
            if (back != X).any():
                i = int(np.nonzero((back != X).any(axis=1))[0][0])
                fails.append((B + ['roundtrip', 'c-d-c'], f'n={n} p={p} cell={cells[i]} -> {int(D[i])} -> {back[i].tolist()}'))
        if p > 1:
            par = np.asarray(hc.distances_from_coordinates(p - 1, (X >> 1).copy()))
            if (par != (D >> n)).any():
                i = int(np.nonzero(par != (D >> n))[0][0])
                fails.append((B + ['refinement'], f'n={n} p={p} cell={cells[i]} d={int(D[i])} parent-d={int(par[i])}'))
        if n == 2:
            ref = np.array([oh.xy2d(p, int(a), int(b)) for a, b in cells], dtype=np.int64)
            if (ref != D).any():
                i = int(np.nonzero(ref != D)[0][0])
                fails.append((B + ['reference', 'd_from_c'], f'p={p} cell={cells[i]} lib={int(D[i])} ref={int(ref[i])}'))
        for dt in _narrow_dtypes(int(X.max())):
            Xd = X.astype(dt)
            try:
                Dd = hc.distances_from_coordinates(p, Xd)
            except Exception:  # noqa: BLE001
                continue
            if _as_int_list(Dd) != _as_int_list(D):
                fails.append((B + ['input-dtype', 'd_from_c'], f'n={n} p={p} cells={cells} as {np.dtype(dt).name}: {_as_int_list(Dd)} vs int64 {_as_int_list(D)}'))
                break
            if (Xd != X.astype(dt)).any():
                fails.append((B + ['mutates-input', 'distances_from_coordinates'], f'n={n} p={p} dtype={np.dtype(dt).name}'))
                break
        if scalar:
            for i, c in enumerate(cells[:16]):
                sc = lib(B + ['distance_from_coordinate'], hc.distance_from_coordinate, p, np.array(c, dtype=np.int64))
                if int(sc) != int(D[i]):
                    fails.append((B + ['scalar-vs-vector', 'd_from_c'], f'n={n} p={p} cell={c} scalar={int(sc)} vec={int(D[i])}'))
                    break
    if n == 2:
        c0 = [int(v) for v in hc.coordinate_from_distance(p, 2, 0)]
        c1 = [int(v) for v in hc.coordinate_from_distance(p, 2, total - 1)]
        if c0 != [0, 0] or c1 != [side - 1, 0]:
            fails.append((B + ['endpoints'], f'p={p} start={c0} end={c1}'))


def _full(n, p, fails):
    """all cells of order p in dimension n; returns number of cells"""
    hc = _hc()
    total = 1 << (n * p)
    side = 1 << p
    d = np.arange(total, dtype=np.int64)
    C = np.asarray(lib(['C07', 'coordinates_from_distances'], hc.coordinates_from_distances, p, n, d))
    bad = []
    if ((C < 0) | (C >= side)).any():
        bad.append(int(np.nonzero(((C < 0) | (C >= side)).any(axis=1))[0][0]))
    key = np.zeros(total, dtype=np.int64)
    for k in range(n):
        key = key * side + C[:, k]
    uniq = np.unique(key)
    if len(uniq) != total:
        order = np.argsort(key, kind='stable')
        dup = np.nonzero(np.diff(key[order]) == 0)[0]
        bad.append(int(order[dup[0] + 1]))
        bad.append(int(order[dup[0]]))
    back = np.asarray(hc.distances_from_coordinates(p, C.copy()))
    if (back != d).any():
        bad.append(int(np.nonzero(back != d)[0][0]))
    # the same grid handed over in the narrowest unsigned dtype that holds a coordinate
    dt = next((t for t in (np.uint8, np.uint16, np.uint32) if np.iinfo(t).max >= side - 1), None)
    if dt is not None:
        try:
            back2 = np.asarray(hc.distances_from_coordinates(p, C.astype(dt)))
        except Exception:  # noqa: BLE001
            back2 = None
        if back2 is not None and (back2.astype(np.int64) != d).any():
            bad.append(int(np.nonzero(back2.astype(np.int64) != d)[0][0]))
    diff = np.abs(np.diff(C, axis=0))
    stepbad = ~((diff.sum(axis=1) == 1) & (diff.max(axis=1) == 1)) if total > 1 else np.zeros(0, bool)
    if stepbad.any():
        bad.append(int(np.nonzero(stepbad)[0][0]))
    if p > 1:
        par = np.asarray(hc.distances_from_coordinates(p - 1, (C >> 1).copy()))
        if (par != (d >> n)).any():
            bad.append(int(np.nonzero(par != (d >> n))[0][0]))
    if n == 2 and p <= 9:
        ref = np.array([oh.d2xy(p, int(v)) for v in range(total)], dtype=np.int64)
        if (ref != C).any():
            bad.append(int(np.nonzero((ref != C).any(axis=1))[0][0]))
    elif n == 2:
        # build the reference for large p by the recursion on arrays (same construction, vectorised)
        ref = np.zeros((1, 2), dtype=np.int64)
        for lvl in range(p):
            s = 1 << lvl
            a = ref[:, ::-1]
            b = ref + np.array([0, s])
            c = ref + np.array([s, s])
            e = np.stack([2 * s - 1 - ref[:, 1], s - 1 - ref[:, 0]], axis=1)
            ref = np.concatenate([a, b, c, e])
        if (ref != C).any():
            bad.append(int(np.nonzero((ref != C).any(axis=1))[0][0]))
    if n * p <= 12:
        # scalar entry points on every cell
        for i in range(total):
            sc = [int(v) for v in hc.coordinate_from_distance(p, n, i)]
            sd = int(hc.distance_from_coordinate(p, C[i].copy()))
            if sc != C[i].tolist() or sd != i:
                bad.append(i)
                break
    for i in sorted(set(bad))[:3]:
        small = []
        _check_items(n, p, [i], [C[i].tolist()], small)
        if small:
            for b, dd in small:
                fails.append((b, dd, {'n': n, 'p': p, 'd': [i], 'cells': [C[i].tolist()]}))
        else:
            fails.append((['C07', 'full-enumeration', f'n{n}'], f'n={n} p={p} index {i} fails only in the whole-grid check (bijection)',
                          {'n': n, 'p': p, 'full': True}))
    return total


def evaluate(case):
    n, p = case['n'], case['p']
    if n * p > 62 or p < 1:
        return outcome(rejected=True)
    fails = []
    if case.get('full'):
        f3 = []
        _full(n, p, f3)
        fails = [(b, d) for b, d, _ in f3]
    else:
        _check_items(n, p, list(case.get('d', [])), [list(c) for c in case.get('cells', [])], fails)
    return outcome(failures=fails, labels=[f'n{n}', f'n{n}p{p}' if p <= 12 else f'n{n}p>12'], nontrivial=True)


# ----------------------------------------------------------------------------- E3
def enum_tasks(tier, seed):
    sc = SCOPE[tier]
    tasks = []
    for n, key in ((2, 'n2_p'), (3, 'n3_p'), (1, 'n1_p')):
        lo, hi = sc[key]
        for p in range(lo, hi + 1):
            tasks.append({'n': n, 'p': p})
    tasks.sort(key=lambda t: -t['n'] * t['p'])
    return tasks


def run_enum_task(task):
    res = new_result()
    n, p = task['n'], task['p']
    f3 = []
    total = _full(n, p, f3)
    res['evaluations'] = total
    res['nontrivial_count'] = total
    res['labels'] = {f'enum:n{n}': total}
    res['samples'] = [{'n': n, 'p': p, 'full': True, 'cells_enumerated': total}]
    res['nt_samples'] = res['samples']
    for b, d, case in f3:
        res['failures'].append({'bucket': b, 'detail': d, 'case': case})
    return res


# ----------------------------------------------------------------------------- E1
def _biased_int(maxv):
    """ints in [0,maxv] biased towards extreme / regular bit patterns"""
    bits = max(1, maxv.bit_length())
    pats = [0, maxv, maxv >> 1, (maxv >> 1) + 1 if maxv else 0, int('01' * 32, 2) & maxv, int('10' * 32, 2) & maxv]
    return st.one_of(
        st.integers(0, maxv),
        st.sampled_from(pats),
        st.integers(0, bits - 1).map(lambda k: min(maxv, 1 << k)),
        st.integers(0, bits - 1).map(lambda k: min(maxv, (1 << k) - 1)),
        st.integers(0, bits - 1).map(lambda k: max(0, maxv - ((1 << k) - 1))),
    )


@st.composite
def _case(draw):
    n = draw(st.sampled_from([2, 2, 2, 3, 1]))
    p = draw(st.integers(1, MAXP[n]))
    total = (1 << (n * p)) - 1
    side = (1 << p) - 1
    ds = draw(st.lists(_biased_int(total), min_size=0, max_size=6))
    cells = draw(st.lists(st.lists(_biased_int(side), min_size=n, max_size=n), min_size=0 if ds else 1, max_size=6))
    return {'n': n, 'p': p, 'd': ds, 'cells': cells}


def strategy(tier):
    return _case()
