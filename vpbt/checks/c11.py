"""C11 - parquet round trips are lossless for every geometry type.

Reproducers of the two defects this check reports on the pinned tree (kept here because the check keeps failing on them
until they are repaired or listed in known_findings.json; PREDICATES below give narrow case predicates for a listing):

  G1  bucket C11/pandas/projection/index-values-differ  -  read_parquet(columns=...) drops a stored unnamed index
        import numpy as np, pandas as pd, spatialpandas as sp
        from spatialpandas.geometry import PointArray
        from spatialpandas.io import to_parquet, read_parquet
        gdf = sp.GeoDataFrame({'g': PointArray(np.array([[0., 0.], [1., 1.]])), 'v': [1, 2]}, index=pd.Index([5, 7]))
        to_parquet(gdf, '/tmp/g1.parq')
        print(read_parquet('/tmp/g1.parq').index.tolist())                  # [5, 7]
        print(read_parquet('/tmp/g1.parq', columns=['g']).index.tolist())   # [0, 1]   <- index lost
      (pandas records the index column as {'name': None, 'field_name': '__index_level_0__'}; read_parquet looks the
       index column up by 'name' among the column names, finds None, and does not prepend it to the projection)

  G2  bucket C11/dask/index-name-differs/__null_dask_index__  -  an unnamed index comes back named
        import numpy as np, dask.dataframe as dd, spatialpandas as sp
        from spatialpandas.geometry import PointArray
        from spatialpandas.io import read_parquet_dask
        gdf = sp.GeoDataFrame({'g': PointArray(np.array([[0., 0.], [1., 1.]])), 'v': [1, 2]})
        dd.from_pandas(gdf, npartitions=1).to_parquet('/tmp/g2.parq')
        print(read_parquet_dask('/tmp/g2.parq').compute().index.name)       # '__null_dask_index__'  (was None)
      (dask writes an unnamed index under the placeholder name and undoes that in its own reader; the per-piece
       read_parquet of spatialpandas does not)
"""
import os
import shutil
import tempfile

import numpy as np
from hypothesis import strategies as st

from .. import dasktools, gen, model
from ..harness import lib, outcome

PROPERTY = 'C11'
LEVEL = 'exploration'
RULE = ('E1 (Hypothesis): a frame of 0..24 rows with 1-3 geometry columns, each of a drawn kind (7) and subtype (5), elements '
        'from the "any structure" generators (0..6 vertices, degenerate/empty rings and parts, lattice values, extremes of the '
        'subtype, NaN/inf coordinates for float subtypes), missing and empty elements at drawn positions (also all-missing '
        'columns), every array optionally re-backed (slice / slice-of-slice / take / concat / pickle -> non-zero buffer '
        'offsets, chunk boundaries), plus int / float (with NaN) / str (with None) columns in a drawn column order; index '
        'kind in {default RangeIndex, named, unnamed non-default ints, non-unique (named or not), int column '
        '"hilbert_distance" set as index}; compression in {snappy, gzip, None}. Pandas path: to_parquet -> read_parquet. '
        'Dask path: a drawn composition of the rows into 1..12 partitions (empty ones allowed, >=11 frequent so that '
        'part.10 sorts before part.2 textually) -> DaskGeoDataFrame.to_parquet -> read_parquet_dask -> compute. Optional '
        'columns= projection (drawn subset in drawn order, at least one geometry column). Optionally the partitions are '
        'written as two datasets that are read back through a list (drawn order) and through a glob (sorted path order). '
        'Oracle: the frame that was written - canonical elements decoded through pyarrow, dtype strings, NaN-aware values, '
        'index values and name, row by row. Non-trivial: a missing or empty element, a non-float64 subtype, a re-backed '
        '(non-zero offset) array, or >= 2 partitions. distinct = distinct cases.')
ASSUMPTIONS = ['pyarrow decodes the stored elements (canonical form) correctly',
               'a columns= projection names at least one geometry column (a geo frame cannot exist without one) and never the index',
               'glob "path order" is the sorted order of the expanded paths; dataset names are chosen so that textual and natural order agree',
               'incidental dtypes of non-geometry columns and of the index, and the column order of an unprojected read, are not compared']
BUDGET = {'quick': {'shards': 16, 'examples': 2400, 'min_evaluations': 1200},
          'thorough': {'shards': 16, 'examples': 48000, 'min_evaluations': 24000}}

GEOM_NAMES = ['ga', 'gb', 'gc']
INDEX_KINDS = ['default', 'named', 'unnamed', 'nonunique', 'hilbert']
MODES = ('full', 'projection', 'list', 'glob')


# ----------------------------------------------------------------------------- known-finding predicates
def _pred_pandas_projection_unnamed_index(case):
    ix = case['index']
    return case['path'] == 'pandas' and case.get('columns') is not None and ix['kind'] in ('unnamed', 'nonunique') and ix.get('name') is None


def _pred_dask_unnamed_index(case):
    return case['path'] == 'dask' and case['index'].get('name') is None


PREDICATES = {'pandas_projection_unnamed_index': _pred_pandas_projection_unnamed_index,
              'dask_unnamed_index': _pred_dask_unnamed_index}


# ----------------------------------------------------------------------------- decoding a case
def _index_of(case):
    import pandas as pd
    ix = case['index']
    n = case['n']
    if ix['kind'] == 'default':
        return pd.RangeIndex(n)
    return pd.Index(np.array(ix['values'], dtype=np.int64), name=ix.get('name'))


def _build_frame(case, B):
    import spatialpandas as sp
    data = {}
    arrays = {g['name']: lib(B + ['construct', g['kind']], model.reback, g['kind'], g['elements'], g['subtype'], g['reback'])
              for g in case['geoms']}
    for g in case['geoms']:
        # decoder sanity (constructors and re-backing are C16's subject): the array holds exactly the case's elements
        if model.to_canonical(arrays[g['name']]) != model.canon_elements(g['elements']):
            raise RuntimeError(f'harness: built {g["kind"]}[{g["subtype"]}] array ({g["reback"]}) does not hold the elements of the case')
    for name in case['order']:
        if name in arrays:
            data[name] = arrays[name]
        elif name == 'i':
            data[name] = np.array(case['others']['i'], dtype=np.int64)
        elif name == 'f':
            data[name] = np.array(case['others']['f'], dtype=np.float64)
        else:
            vals = np.empty(case['n'], dtype=object)
            vals[:] = case['others'][name]
            data[name] = vals
    ix = case['index']
    if ix['kind'] == 'hilbert':
        # an int column named hilbert_distance, then set as the index (what pack_partitions does)
        data['hilbert_distance'] = np.array(ix['values'], dtype=np.int64)
        gdf = lib(B + ['construct', 'frame'], lambda: sp.GeoDataFrame(data).set_index('hilbert_distance'))
    else:
        gdf = lib(B + ['construct', 'frame'], sp.GeoDataFrame, data, index=_index_of(case))
    return gdf


def _is_na(v):
    import pandas as pd
    if v is None or v is pd.NA:
        return True
    return isinstance(v, (float, np.floating)) and v != v


def _plain(v):
    if _is_na(v):
        return None
    if isinstance(v, (np.integer,)):
        return int(v)
    if isinstance(v, (np.floating,)):
        return float(v)
    if isinstance(v, np.str_):
        return str(v)
    return v


def _expectation(gdf, geom_names):
    """what was written: per column either ('geom', dtype string, kind, canonical elements) or ('plain', values)"""
    cols = {}
    for c in gdf.columns:
        if c in geom_names:
            arr = gdf[c].array
            cols[c] = ('geom', str(gdf[c].dtype), model.kind_of(arr), model.to_canonical(arr))
        else:
            cols[c] = ('plain', None, None, [_plain(v) for v in gdf[c].tolist()])
    return {'index': [_plain(v) for v in gdf.index.tolist()], 'index_name': gdf.index.name, 'cols': cols,
            'order': list(gdf.columns)}


def _row_keys(index, cols, names):
    return [repr((index[i], [cols[c][i] for c in names])) for i in range(len(index))]


def _compare(got, exp, rows, columns, B, ctx):
    """got: GeoDataFrame read back; exp: expectation of the written frame; rows: expected row numbers in order;
    columns: requested projection (ordered) or None. Returns [(bucket, detail)]."""
    from spatialpandas.geometry import GeometryDtype
    fails = []
    want_cols = list(columns) if columns is not None else exp['order']
    got_cols = [str(c) for c in got.columns]
    if columns is not None:
        if got_cols != want_cols:
            return [(B + ['columns-differ'], f'requested {want_cols} got {got_cols}; {ctx}')]
    elif sorted(got_cols) != sorted(want_cols):
        return [(B + ['columns-differ'], f'written {want_cols} got {got_cols}; {ctx}')]
    # observed values
    g_index = [_plain(v) for v in got.index.tolist()]
    g_cols = {}
    for c in want_cols:
        spec = exp['cols'][c]
        if spec[0] == 'geom':
            if not isinstance(got[c].dtype, GeometryDtype) or str(got[c].dtype) != spec[1]:
                # kind or subtype changed: the stored bytes cannot be decoded under the claimed dtype, nothing more to compare
                return [(B + [spec[2], 'dtype-differs'], f'column {c}: written {spec[1]} read {got[c].dtype}; {ctx}')]
            g_cols[c] = model.to_canonical(got[c].array)
        else:
            g_cols[c] = [_plain(v) for v in got[c].tolist()]
    e_index = [exp['index'][r] for r in rows]
    e_cols = {c: [exp['cols'][c][3][r] for r in rows] for c in want_cols}
    if len(g_index) != len(e_index):
        return [(B + ['row-count-differs'], f'expected {len(e_index)} rows got {len(g_index)}; {ctx}')]
    gk, ek = _row_keys(g_index, g_cols, want_cols), _row_keys(e_index, e_cols, want_cols)
    data_differs = [g_cols[c] for c in want_cols] != [e_cols[c] for c in want_cols]
    if gk != ek and sorted(gk) == sorted(ek) and data_differs:
        pos = {}
        for i, k in enumerate(ek):
            pos.setdefault(k, []).append(i)
        perm = [pos[k].pop(0) for k in gk]
        return [(B + ['row-order-differs'], f'same rows in another order: read row j is written row {perm}; {ctx}')]
    for c in want_cols:
        spec = exp['cols'][c]
        if spec[0] == 'geom':
            if g_cols[c] != e_cols[c]:
                i = next(i for i, (a, b) in enumerate(zip(g_cols[c], e_cols[c])) if a != b)
                what = 'missing-not-kept' if (g_cols[c][i] is None) != (e_cols[c][i] is None) else 'elements-differ'
                fails.append((B + [spec[2], what], f'column {c} ({spec[1]}) row {i}: written {e_cols[c][i]} read {g_cols[c][i]}; {ctx}'))
        elif g_cols[c] != e_cols[c]:
            i = next(i for i, (a, b) in enumerate(zip(g_cols[c], e_cols[c])) if a != b)
            fails.append((B + ['column-values-differ', c], f'column {c} row {i}: written {e_cols[c][i]!r} read {g_cols[c][i]!r}; {ctx}'))
    if g_index != e_index:
        fails.append((B + ['index-values-differ'], f'written {e_index} read {g_index}; {ctx}'))
    if got.index.name != exp['index_name']:
        # the index name does not depend on how the dataset is read: no read mode in this bucket
        fails.append((B[:2] + ['index-name-differs', str(got.index.name)], f'written {exp["index_name"]!r} read {got.index.name!r}; {ctx}'))
    return fails


def _dedup(fails, seen):
    """the same deviation observed again through a later read mode is the same root cause: keep the first"""
    out = []
    for b, d in fails:
        key = tuple(x for x in b[2:] if x not in MODES)
        if key in seen:
            continue
        seen.add(key)
        out.append((b, d))
    return out


def evaluate(case):
    import spatialpandas as sp
    from spatialpandas.dask import DaskGeoDataFrame
    from spatialpandas.io import read_parquet, read_parquet_dask, to_parquet
    path_kind = case['path']
    B = ['C11', path_kind]
    geom_names = [g['name'] for g in case['geoms']]
    comp = case['compression']
    columns = case.get('columns')
    n = case['n']
    fails, seen = [], set()
    gdf = _build_frame(case, B)
    exp = _expectation(gdf, geom_names)
    all_rows = list(range(n))
    ctx = f'index={case["index"]["kind"]} compression={comp}'
    root = tempfile.mkdtemp(prefix='vp_c11_')
    try:
        if path_kind == 'pandas':
            path = os.path.join(root, 'frame.parq')
            lib(B + ['to_parquet'], to_parquet, gdf, path, compression=comp)
            r = lib(B + ['read_parquet'], read_parquet, path)
            if not isinstance(r, sp.GeoDataFrame):
                fails.append((B + ['full', 'result-type'], f'{type(r)}'))
            else:
                fails += _dedup(_compare(r, exp, all_rows, None, B + ['full'], ctx), seen)
            if columns is not None:
                r = lib(B + ['read_parquet', 'columns'], read_parquet, path, columns=list(columns))
                if not isinstance(r, sp.GeoDataFrame):
                    fails.append((B + ['projection', 'result-type'], f'{type(r)}'))
                else:
                    fails += _dedup(_compare(r, exp, all_rows, columns, B + ['projection'], ctx + f' columns={columns}'), seen)
                ixn = exp['index_name']
                import pandas as pd
                if case.get('columns_with_index') is not None and ixn is not None and ixn not in columns and n > 0 \
                        and not isinstance(gdf.index, pd.RangeIndex):
                    # the projection may also name the stored index column itself: it is still "those columns plus the index"
                    # (a RangeIndex - which pandas also makes of any two integers - is stored as metadata, not as a column,
                    # so there is no such column to name; asking for it raises in pandas itself)
                    req = list(columns)
                    req.insert(case['columns_with_index'] % (len(req) + 1), ixn)
                    r = lib(B + ['read_parquet', 'columns+index'], read_parquet, path, columns=req)
                    if not isinstance(r, sp.GeoDataFrame):
                        fails.append((B + ['projection+index', 'result-type'], f'{type(r)}'))
                    else:
                        fails += _dedup(_compare(r, exp, all_rows, columns, B + ['projection+index'], ctx + f' columns={req}'), seen)
        else:
            sizes = case['sizes']
            ctx += f' sizes={sizes} builder={case.get("builder", "delayed")}'
            if case.get('builder') == 'from_pandas':
                import dask.dataframe as dd
                ddf = lib(B + ['from_pandas'], dd.from_pandas, gdf, npartitions=max(1, len(sizes)))
            else:
                ddf = lib(B + ['from_delayed'], dasktools.ddf_from_sizes, gdf, sizes)
            if not isinstance(ddf, DaskGeoDataFrame):
                raise RuntimeError(f'harness: input is not a DaskGeoDataFrame: {type(ddf)}')
            path = os.path.join(root, 'frame.parq')
            lib(B + ['to_parquet'], ddf.to_parquet, path, compression=comp)

            def read_and_compare(mode, target, rows, cols, note):
                kw = {} if cols is None else {'columns': list(cols)}
                r = lib(B + ['read_parquet_dask', mode], read_parquet_dask, target, **kw)
                if not isinstance(r, DaskGeoDataFrame):
                    return [(B + [mode, 'result-type'], f'{type(r)}')]
                got = lib(B + ['compute', mode], r.compute)
                if not isinstance(got, sp.GeoDataFrame):
                    return [(B + [mode, 'computed-type'], f'{type(got)}')]
                out = _compare(got, exp, rows, cols, B + [mode], ctx + note)
                if not out:
                    if [str(c) for c in r.columns] != [str(c) for c in got.columns]:
                        out.append((B + [mode, 'meta-columns-differ'], f'meta {list(r.columns)} computed {list(got.columns)}; {ctx}{note}'))
                    else:
                        for c in got.columns:
                            if c in geom_names and str(r.dtypes[c]) != exp['cols'][c][1]:
                                out.append((B + [mode, exp['cols'][c][2], 'meta-dtype-differs'],
                                            f'column {c}: written {exp["cols"][c][1]} meta {r.dtypes[c]}; {ctx}{note}'))
                return out

            fails += _dedup(read_and_compare('full', path, all_rows, None, ''), seen)
            if columns is not None:
                fails += _dedup(read_and_compare('projection', path, all_rows, columns, f' columns={columns}'), seen)
            multi = case.get('multi')
            if multi:
                at = multi['at']
                cut = sum(sizes[:at])
                halves = [(sizes[:at], gdf.iloc[:cut], list(range(cut))), (sizes[at:], gdf.iloc[cut:], list(range(cut, n)))]
                mdir = os.path.join(root, 'multi')
                os.makedirs(mdir)
                paths = []
                for (sz, part, _), name in zip(halves, multi['names']):
                    p = os.path.join(mdir, name)
                    d2 = dasktools.ddf_from_sizes(part, sz)
                    lib(B + ['to_parquet'], d2.to_parquet, p, compression=comp)
                    paths.append(p)
                order = multi['list_order']
                fails += _dedup(read_and_compare('list', [paths[j] for j in order], [r_ for j in order for r_ in halves[j][2]],
                                                 None, f' multi={multi}'), seen)
                gorder = sorted(range(2), key=lambda j: multi['names'][j])
                fails += _dedup(read_and_compare('glob', os.path.join(mdir, 'ds_*.parq'), [r_ for j in gorder for r_ in halves[j][2]],
                                                 None, f' multi={multi}'), seen)
    finally:
        shutil.rmtree(root, ignore_errors=True)

    # ---- classification
    labels = ['path:' + path_kind, 'index:' + case['index']['kind'], f'compression:{comp}', f'geometry-columns:{len(geom_names)}']
    has_missing = has_empty = rebacked = non_f64 = False
    for g in case['geoms']:
        labels += ['kind:' + g['kind'], 'subtype:' + g['subtype'], 'reback:' + g['reback']]
        has_missing |= any(e is None for e in g['elements'])
        has_empty |= any(e is not None and model.is_inert(g['kind'], e) for e in g['elements'])
        rebacked |= g['reback'] != 'plain' and n > 0
        non_f64 |= g['subtype'] != 'float64'
        if n and all(e is None for e in g['elements']):
            labels.append('all-missing-column')
    if has_missing:
        labels.append('has-missing')
    if has_empty:
        labels.append('has-empty')
    if n == 0:
        labels.append('zero-rows')
    if columns is not None:
        labels.append('projection')
    nparts = 1
    if path_kind == 'dask':
        nparts = len(case['sizes'])
        labels.append('partitions:1' if nparts == 1 else ('partitions:2-10' if nparts <= 10 else 'partitions:11-12'))
        if 0 in case['sizes']:
            labels.append('empty-partition')
        if case.get('multi'):
            labels.append('two-datasets(list+glob)')
        labels.append('builder:' + case.get('builder', 'delayed'))
    nt = has_missing or has_empty or non_f64 or rebacked or nparts >= 2
    return outcome(failures=fails, labels=labels, nontrivial=nt)


# ----------------------------------------------------------------------------- strategy
@st.composite
def _geom_column(draw, n, name):
    kind = draw(st.sampled_from(model.KINDS))
    subtype = draw(gen.subtypes)
    wide = draw(st.integers(0, 3)) == 0
    nonfinite = draw(st.booleans())
    mode = draw(st.sampled_from(['mixed', 'mixed', 'mixed', 'mixed', 'no-missing', 'all-missing']))
    els = []
    for _ in range(n):
        if mode == 'all-missing':
            els.append(None)
            continue
        r = draw(st.integers(0, 9))
        if r == 0 and mode != 'no-missing':
            els.append(None)
        elif r == 1:
            if kind == 'point':
                els.append([float('nan'), float('nan')] if subtype.startswith('float') else (None if mode != 'no-missing' else [0, 0]))
            else:
                els.append([])
        else:
            els.append(gen.no_leafless(draw(gen.any_element(kind, subtype, nonfinite, wide))))
    return {'name': name, 'kind': kind, 'subtype': subtype, 'elements': els, 'reback': draw(st.sampled_from(model.REBACKINGS))}


@st.composite
def _index(draw, n):
    kind = draw(st.sampled_from(INDEX_KINDS))
    if kind == 'default':
        return {'kind': kind, 'name': None}
    if kind == 'named':
        vals = draw(st.permutations(list(range(n)))) if n else []
        off = draw(st.integers(-3, 50))
        return {'kind': kind, 'name': draw(st.sampled_from(['k', 'idx', 'index'])), 'values': [v * 2 + off for v in vals]}
    if kind == 'unnamed':
        vals = draw(st.permutations(list(range(n)))) if n else []
        off = draw(st.integers(1, 50))
        return {'kind': kind, 'name': None, 'values': [v + off for v in vals]}
    if kind == 'nonunique':
        return {'kind': kind, 'name': draw(st.sampled_from([None, None, 'k'])),
                'values': [draw(st.integers(0, max(1, n // 2))) for _ in range(n)]}
    vals = sorted(draw(st.integers(0, 2 ** 30)) if draw(st.integers(0, 3)) else 0 for _ in range(n))
    if n >= 2 and draw(st.booleans()):
        vals[1] = vals[0]
    return {'kind': 'hilbert', 'name': 'hilbert_distance', 'values': vals}


@st.composite
def _case(draw):
    n = draw(st.one_of(st.integers(0, 4), st.integers(1, 10), st.integers(1, 24)))
    ng = draw(st.sampled_from([1, 1, 2, 2, 3]))
    if n > 12:
        ng = min(ng, 2)
    geoms = [draw(_geom_column(n, GEOM_NAMES[j])) for j in range(ng)]
    others = {}
    for name in draw(st.lists(st.sampled_from(['i', 'f', 's']), unique=True, max_size=3)):
        if name == 'i':
            others[name] = [draw(st.integers(-2 ** 40, 2 ** 40)) for _ in range(n)]
        elif name == 'f':
            others[name] = [draw(st.sampled_from([0.5, -1.25, float('nan'), 1e300, 3.0, float('inf')])) for _ in range(n)]
        else:
            others[name] = [draw(st.sampled_from(['a', 'bb', '', None, 'part.10', 'é'])) for _ in range(n)]
    order = list(draw(st.permutations([g['name'] for g in geoms] + sorted(others))))
    case = {'n': n, 'geoms': geoms, 'others': others, 'order': order, 'index': draw(_index(n)),
            'compression': draw(st.sampled_from(['snappy', 'gzip', None])),
            'path': draw(st.sampled_from(['pandas', 'dask', 'dask']))}
    if draw(st.integers(0, 2)) == 0:
        sub = draw(st.lists(st.sampled_from(order), unique=True, min_size=1, max_size=len(order)))
        if not any(c in GEOM_NAMES for c in sub):
            sub.insert(draw(st.integers(0, len(sub))), draw(st.sampled_from([g['name'] for g in geoms])))
        case['columns'] = sub
        case['columns_with_index'] = draw(st.sampled_from([None, 0, 1, 2, 5]))
    else:
        case['columns'] = None
    if case['path'] == 'dask':
        k = draw(st.sampled_from([1, 2, 3, 5, 8, 11, 12, 12]))
        cuts = sorted(draw(st.lists(st.integers(0, n), min_size=k - 1, max_size=k - 1)))
        if n >= k and draw(st.booleans()):
            # no empty partition: distinct cut points
            cuts = sorted(draw(st.lists(st.integers(1, n - 1), min_size=k - 1, max_size=k - 1, unique=True))) if k > 1 else []
        edges = [0] + cuts + [n]
        case['sizes'] = [b - a for a, b in zip(edges[:-1], edges[1:])]
        case['builder'] = 'from_pandas' if (case['index']['kind'] == 'default' and n >= 1 and draw(st.integers(0, 3)) == 0) else 'delayed'
        if case['builder'] == 'from_pandas':
            # dd.from_pandas chooses its own split points; record a nominal partition count only
            case['sizes'] = case['sizes'][:min(k, n)] if n else [0]
            case['sizes'] = [1] * len(case['sizes'])
            case['sizes'][-1] = n - (len(case['sizes']) - 1)
        elif k >= 2 and draw(st.integers(0, 2)) == 0:
            names = ['ds_0.parq', 'ds_1.parq']
            case['multi'] = {'at': draw(st.integers(1, k - 1)), 'list_order': draw(st.sampled_from([[0, 1], [1, 0]])),
                             'names': names if draw(st.booleans()) else names[::-1]}
    return case


def strategy(tier):
    return _case()
