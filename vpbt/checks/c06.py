"""C06 - a Dask geo frame answers exactly like the pandas frame it represents (differential)."""
import collections
import os
import shutil
import tempfile

import numpy as np
from hypothesis import strategies as st

from .. import dasktools, gen, model
from ..harness import lib, outcome
from .c05 import _frame_rows

PROPERTY = 'C06'
LEVEL = 'exploration'
RULE = ('Differential, E1 (Hypothesis): a GeoDataFrame of 1..16 rows with a point column and a polygon/line/multipolygon column '
        '(lattice shapes, missing and empty geometries, duplicates), an id and a value column, drawn index; a partitioning (ordered '
        'composition into 1..6 parts, empty parts allowed, parts of only missing geometries, parts lying entirely inside the query box); '
        'a provenance chain drawn from {from_pandas(npartitions), from_delayed(arbitrary parts), boolean row filter on the Dask frame, '
        'Dask set_geometry(other column), pack_partitions, written with to_parquet and re-read with read_parquet_dask with/without '
        'geometry= and bounds=}; operations cx (frame and series), cx_partitions, bounds, total_bounds, area, length, intersects_bounds, '
        'sjoin(how in {inner,left}) against a small right frame; positive-area boxes built from the data. Oracle: the same operation on '
        'the pandas frame the collection represents (built independently in pandas for the first four provenances; the computed frame '
        'for pack/parquet, whose row multiset must equal the source). Non-trivial: >= 2 partitions and at least one of: empty partition, '
        'all-missing partition, partition covered by the box, provenance other than from_pandas. distinct = distinct cases.')
RULE += (' Added after the seeded rounds: provenances parquet-rewrite (the path held another dataset, read and queried in this process) and parquet-list (two datasets listed against path order).')
ASSUMPTIONS = ['number and divisions of result partitions are not asserted', "sjoin how='right' is documented as unsupported for Dask frames and not exercised"]
BUDGET = {'quick': {'shards': 16, 'examples': 480, 'min_evaluations': 240},
          'thorough': {'shards': 16, 'examples': 4800, 'min_evaluations': 2400}}


def _ids(df):
    return list(df['id'])


def _eq_series(a, b):
    if list(a.index) != list(b.index):
        return False
    return bool(np.array_equal(np.asarray(a.values, dtype=float), np.asarray(b.values, dtype=float), equal_nan=True))


def evaluate(case):
    import dask.dataframe as dd
    import pandas as pd
    import spatialpandas as sp
    from spatialpandas.io import read_parquet_dask
    B = ['C06']
    n = len(case['points'])
    kind2 = case['kind2']
    pts = model.build_array('point', case['points'], 'float64')
    shp = model.build_array(kind2, case['shapes'], case.get('subtype2', 'float64'))
    idx = {'default': list(range(n)), 'labels': [f'r{i}' for i in range(n)], 'nonunique': [i // 2 for i in range(n)]}[case['index']]
    order = case['col_order']
    data = {'id': list(range(n)), 'v': [(i * 3) % 4 for i in range(n)]}
    data[order[0]] = pts if order[0] == 'pts' else shp
    data[order[1]] = pts if order[1] == 'pts' else shp
    pdf = sp.GeoDataFrame(data, index=idx)
    active = case['active']
    pdf = pdf.set_geometry(active)
    sizes = case['sizes']
    tmp = None
    fails = []
    labels = ['kind2:' + kind2, 'active:' + active]
    nontriv_flags = set()
    try:
        # ---------------- provenance
        prov = case['provenance']
        if prov[0] == 'from_pandas':
            ddf = lib(B + ['from_pandas'], dd.from_pandas, pdf, npartitions=max(1, min(len(sizes), n)), sort=False)
        else:
            ddf = dasktools.ddf_from_sizes(pdf, sizes)
            nontriv_flags.add('from_delayed')
            if 0 in sizes:
                nontriv_flags.add('empty-partition')
        ref = pdf
        for step in prov[1:]:
            labels.append('prov:' + step)
            nontriv_flags.add(step)
            if step == 'filter':
                if case.get('warm_cache'):
                    # cache partition bounds / index on the parent first: the filtered frame must not reuse them
                    lib(B + ['partition_sindex'], lambda: ddf.partition_sindex)
                    labels.append('filter-after-cached-bounds')
                ddf = lib(B + ['filter'], lambda: ddf[ddf['v'] != 0])
                ref = ref[ref['v'] != 0]
            elif step == 'set_geometry':
                other = [c for c in ('pts', 'shp') if c != active][0]
                ddf = lib(B + ['set_geometry'], ddf.set_geometry, other)
                ref = ref.set_geometry(other)
                active = other
            elif step == 'pack':
                if len(ref) < 2:
                    return outcome(rejected=True)
                try:
                    ddf = ddf.pack_partitions(npartitions=case.get('pack_n', 2), p=case.get('p', 8))
                    comp = ddf.compute()
                except Exception:  # noqa: BLE001  (C09: nothing is claimed when the call raises)
                    return outcome(labels=labels + ['pack-raised'], nontrivial=False)
                if sorted(_ids(comp)) != sorted(_ids(ref)):
                    fails.append((B + ['pack', 'row-multiset'], f'{sorted(_ids(comp))} vs {sorted(_ids(ref))}'))
                    return outcome(failures=fails, labels=labels, nontrivial=True)
                ref = comp.set_geometry(active) if getattr(comp, '_geometry', None) != active else comp
            elif step.startswith('parquet'):
                if len(ref) == 0:
                    return outcome(rejected=True)
                tmp = tmp or tempfile.mkdtemp(prefix='vp_c06_')
                path = os.path.join(tmp, f'd{len(os.listdir(tmp))}.parq')
                target = path
                if 'rewrite' in step and 'pack' not in prov:
                    # a history: another dataset (same rows in reverse, same partition sizes, hence the same number of
                    # files) was written to this very path, read and queried in this process, then removed
                    lens = [int(v) for v in ddf.map_partitions(len).compute()]
                    prior = dasktools.ddf_from_sizes(ref.iloc[::-1], lens)
                    lib(B + ['to_parquet'], prior.to_parquet, path)
                    r0 = lib(B + ['read_parquet_dask'], read_parquet_dask, path)
                    lib(B + ['total_bounds'], lambda: (r0.geometry.total_bounds, r0.geometry.partition_bounds))
                    shutil.rmtree(path)
                if 'list' in step and 'pack' not in prov and ddf.npartitions >= 2:
                    # two datasets read as a list whose order is not the sorted order of their paths
                    h = ddf.npartitions // 2
                    target = [os.path.join(tmp, f'z{len(os.listdir(tmp))}.parq'), os.path.join(tmp, f'a{len(os.listdir(tmp))}.parq')]
                    lib(B + ['to_parquet'], ddf.partitions[:h].to_parquet, target[0])
                    lib(B + ['to_parquet'], ddf.partitions[h:].to_parquet, target[1])
                    labels.append('two-datasets-listed-out-of-path-order')
                else:
                    lib(B + ['to_parquet'], ddf.to_parquet, path)
                kw = {}
                if 'geom' in step:
                    kw['geometry'] = active
                if 'bounds' in step:
                    kw['bounds'] = tuple(case['box'])
                    if 'geom' not in step:
                        kw['geometry'] = active
                ddf = lib(B + ['read_parquet_dask'], read_parquet_dask, target, **kw)
                comp = lib(B + ['compute-after-read'], ddf.compute)
                if 'geometry' not in kw:
                    # default = first geometry column of the file
                    active = [c for c in comp.columns if c in ('pts', 'shp')][0]
                if 'bounds' not in step and sorted(_ids(comp)) != sorted(_ids(ref)):
                    fails.append((B + ['parquet', 'row-multiset'], f'{sorted(_ids(comp))} vs {sorted(_ids(ref))}'))
                    return outcome(failures=fails, labels=labels, nontrivial=True)
                if 'bounds' in step:
                    # every row that intersects the box must still be there
                    need = [i for i, hit in zip(_ids(ref), ref[active].array.intersects_bounds(tuple(case['box']))) if hit]
                    if set(need) - set(_ids(comp)):
                        fails.append((B + ['parquet', 'bounds-pruning-lost-rows'], f'lost ids {sorted(set(need) - set(_ids(comp)))} box={case["box"]}'))
                ref = comp.set_geometry(active)
        if type(ddf).__name__ != 'DaskGeoDataFrame':
            fails.append((B + ['type'], type(ddf).__name__))
            return outcome(failures=fails, labels=labels, nontrivial=True)
        nm = lib(B + ['ddf.geometry'], lambda: ddf.geometry.name)
        if nm != active:
            fails.append((B + ['active-geometry'], f'{nm} expected {active}'))
        # partitions as one computation of the whole collection (ddf.npartitions can exceed the materialised count after
        # pack_partitions: open finding D20 of C09; ddf.partitions[i] would then raise in the harness itself)
        import dask
        parts = list(lib(B + ['partitions'], lambda: dask.compute(*ddf.to_delayed())))
        whole = lib(B + ['compute'], ddf.compute)
        if _ids(whole) != _ids(ref):
            fails.append((B + ['compute', 'rows'], f'{_ids(whole)} vs pandas {_ids(ref)}'))
            return outcome(failures=fails, labels=labels, nontrivial=True)
        npart = len(parts)
        if npart >= 2:
            if any(len(p) == 0 for p in parts):
                nontriv_flags.add('empty-partition')
            if any(len(p) and all(e is None for e in model.to_canonical(p[active].array)) for p in parts):
                nontriv_flags.add('all-missing-partition')
        box = case['box']
        x0, y0, x1, y1 = box
        rgeo = ref[active]
        # ---------------- operations
        for opname in case['ops']:
            tag = B + [opname, 'active:' + KINDTAG(active, kind2)]
            if opname == 'cx':
                got = lib(tag, lambda: ddf.cx[x0:x1, y0:y1].compute())
                exp = ref.cx[x0:x1, y0:y1]
                if _ids(got) != _ids(exp) or list(got.index) != list(exp.index):
                    extra = sorted(set(_ids(got)) - set(_ids(exp)))
                    what = 'extra-rows' if extra else ('missing-rows' if set(_ids(exp)) - set(_ids(got)) else 'order')
                    fails.append((tag + [what], f'dask ids={_ids(got)} pandas ids={_ids(exp)} box={box} sizes={[len(p) for p in parts]} prov={prov}'))
                for p in parts:
                    if len(p):
                        pb = p[active].total_bounds
                        if pb[0] >= x0 and pb[2] <= x1 and pb[1] >= y0 and pb[3] <= y1:
                            nontriv_flags.add('covered-partition')
            elif opname == 'cx_series':
                got = lib(tag, lambda: ddf.geometry.cx[x0:x1, y0:y1].compute())
                exp = rgeo.cx[x0:x1, y0:y1]
                if list(got.index) != list(exp.index) or model.to_canonical(got.array) != model.to_canonical(exp.array):
                    fails.append((tag + ['rows'], f'dask index={list(got.index)} pandas index={list(exp.index)} box={box}'))
            elif opname == 'cx_partitions':
                sel = lib(tag, lambda: ddf.cx_partitions[x0:x1, y0:y1])
                sparts = [sel.partitions[i].compute() for i in range(sel.npartitions)]
                orig = [tuple(_ids(p)) for p in parts]
                for sp_ in sparts:
                    if len(sp_) and tuple(_ids(sp_)) not in orig:
                        fails.append((tag + ['not-whole-partitions'], f'{_ids(sp_)} not one of {orig}'))
                have = {i for sp_ in sparts for i in _ids(sp_)}
                need = set(_ids(ref.cx[x0:x1, y0:y1]))
                if need - have:
                    fails.append((tag + ['lost-rows'], f'missing ids {sorted(need - have)} box={box} partitions={orig}'))
            elif opname == 'bounds':
                got = lib(tag, lambda: ddf.geometry.bounds.compute())
                exp = rgeo.bounds
                if list(got.index) != list(exp.index) or not np.array_equal(got.values, exp.values, equal_nan=True):
                    fails.append((tag + ['values'], f'{got.values.tolist()} vs {exp.values.tolist()}'))
            elif opname == 'total_bounds':
                got = lib(tag, lambda: tuple(ddf.geometry.total_bounds))
                if not model.same_row(got, tuple(rgeo.total_bounds)):
                    fails.append((tag + ['values'], f'{got} vs {tuple(rgeo.total_bounds)} sizes={[len(p) for p in parts]}'))
            elif opname in ('area', 'length'):
                got = lib(tag, lambda: getattr(ddf.geometry, opname).compute())
                if not _eq_series(got, getattr(rgeo, opname)):
                    fails.append((tag + ['values'], f'{got.tolist()} vs {getattr(rgeo, opname).tolist()}'))
            elif opname == 'intersects_bounds':
                got = lib(tag, lambda: ddf.geometry.intersects_bounds(tuple(box)).compute())
                exp = rgeo.intersects_bounds(tuple(box))
                if list(got.index) != list(exp.index) or got.tolist() != exp.tolist():
                    fails.append((tag + ['values'], f'{got.tolist()} vs {exp.tolist()}'))
            elif opname.startswith('sjoin'):
                if active != 'pts' or len(ref) == 0:
                    continue
                how = opname.split('-')[1]
                right = sp.GeoDataFrame({'b': [1, 2, 3], 'g': model.build_array('polygon', case['right_polys'], 'float64')}, index=['A', 'B', 'C'])
                got = lib(tag, lambda: sp.sjoin(ddf, right, how=how).compute())
                exp = sp.sjoin(ref, right, how=how)
                if _frame_rows(got) != _frame_rows(exp):
                    fails.append((tag + ['rows'], f'dask pairs={sorted(zip(got["id"], map(str, got["index_right"])))} pandas pairs={sorted(zip(exp["id"], map(str, exp["index_right"])))} sizes={[len(p) for p in parts]}'))
            labels.append('op:' + opname)
        labels.append(f'parts{min(npart, 6)}')
        labels.extend(sorted(nontriv_flags))
        nt = npart >= 2 and bool(nontriv_flags)
        return outcome(failures=fails, labels=labels, nontrivial=nt)
    finally:
        if tmp:
            shutil.rmtree(tmp, ignore_errors=True)


def _filter_after_pack(case):
    """D25: a row filter applied to a packed frame. dask-expr pushes the filter below the set_index shuffle, so partition
    contents differ between computations of the same collection (pure Dask reproduces it); spatialpandas' Dask cx /
    cx_partitions / partition bounds then disagree with each other"""
    prov = case.get('provenance', [])
    return 'pack' in prov and 'filter' in prov[prov.index('pack'):]


PREDICATES = {'filter_after_pack': _filter_after_pack}


def KINDTAG(active, kind2):
    return 'point' if active == 'pts' else kind2


# ----------------------------------------------------------------------------- strategy
OPS = ['cx', 'cx', 'cx_series', 'cx_partitions', 'bounds', 'total_bounds', 'area', 'length', 'intersects_bounds', 'sjoin-inner', 'sjoin-left']


@st.composite
def _case(draw):
    n = draw(st.sampled_from([1, 2, 3, 4, 6, 8, 12, 16]))
    kind2 = draw(st.sampled_from(['polygon', 'polygon', 'line', 'multipolygon']))
    c = st.integers(0, 12)
    pts, shapes = [], []
    for _ in range(n):
        r = draw(st.integers(0, 9))
        pts.append(None if r == 0 else ([float('nan'), float('nan')] if r == 1 else [draw(c), draw(c)]))
        r = draw(st.integers(0, 9))
        if r == 0:
            shapes.append(None)
        elif r == 1:
            shapes.append([])
        elif r == 2 and shapes and shapes[-1]:
            shapes.append(shapes[-1])
        else:
            x, y, w, h = draw(c), draw(c), draw(st.integers(1, 4)), draw(st.integers(1, 4))
            ring = [x, y, x + w, y, x + w, y + h, x, y + h, x, y]
            shapes.append({'polygon': [ring], 'line': [x, y, x + w, y + h], 'multipolygon': [[ring], [[x + 20, y, x + 21, y, x + 21, y + 1, x + 20, y]]]}[kind2])
    # partitioning; optionally sort rows so that a partition is spatially compact (covered by the box)
    sizes = draw(gen.partition_splits(n, 6))
    if draw(st.booleans()):
        order = sorted(range(n), key=lambda i: (pts[i] is None, pts[i] or [0, 0]))
        pts = [pts[i] for i in order]
        shapes = [shapes[i] for i in order]
    if draw(st.integers(0, 3)) == 0 and len(sizes) >= 2 and sizes[0] > 0:
        for i in range(sizes[0]):
            pts[i] = None
            shapes[i] = None
    fl = [v for p in pts if p is not None and p[0] == p[0] for v in p]
    box = draw(gen.feature_boxes(fl, 1, allow_degenerate=False)) if fl else [0.0, 0.0, 5.0, 5.0]
    box = [min(box[0], box[2]), min(box[1], box[3]), max(box[0], box[2]), max(box[1], box[3])]
    if draw(st.integers(0, 2)) == 0:
        box = [-1.0, -1.0, 40.0, 20.0]
    first = draw(st.sampled_from(['from_pandas', 'from_delayed', 'from_delayed']))
    chain = [first] + draw(st.lists(st.sampled_from(['filter', 'set_geometry', 'pack', 'parquet', 'parquet-geom', 'parquet-bounds', 'parquet-bounds', 'parquet-bounds-list', 'parquet-rewrite', 'parquet-list', 'parquet-geom-list']), max_size=2, unique=True))
    return {'points': pts, 'shapes': shapes, 'kind2': kind2, 'subtype2': draw(st.sampled_from(['float64', 'float32', 'int32'])),
            'index': draw(st.sampled_from(['default', 'labels', 'nonunique'])),
            'col_order': draw(st.sampled_from([['pts', 'shp'], ['shp', 'pts']])), 'active': draw(st.sampled_from(['pts', 'pts', 'shp'])),
            'sizes': sizes, 'provenance': chain, 'warm_cache': draw(st.booleans()), 'box': box, 'pack_n': draw(st.integers(1, 4)), 'p': draw(st.integers(2, 12)),
            'ops': draw(st.lists(st.sampled_from(OPS), min_size=2, max_size=5, unique=True)),
            'right_polys': [[[0, 0, 6, 0, 6, 6, 0, 6, 0, 0]], [[4, 4, 13, 4, 13, 13, 4, 13, 4, 4]], [[30, 30, 31, 30, 31, 31, 30, 30]]]}


def strategy(tier):
    return _case()
