"""C10 - pack_partitions_to_parquet leaves a complete, clean, re-readable dataset."""
import os
import re
import shutil
import tempfile

from hypothesis import strategies as st

from ..harness import Failure, lib, outcome
from . import c09 as base

PROPERTY = 'C10'
LEVEL = 'exploration'
RULE = ('E1 (Hypothesis) against the real local filesystem under a per-case scratch root. A case is a frame of 1..24 rows '
        '(1-2 geometry columns of drawn kind/subtype, drawn active one, missing / empty / repeated geometries, unique id, '
        'int / float(NaN) / str(None) columns), an input partitioning (1..5 parts, empty parts allowed, or dd.from_pandas), '
        'npartitions in 1..16 (mostly more partitions than distinct distances, so empty output partitions at the start / '
        'middle / end are frequent), p in 1..20, compression in {snappy, gzip, None}, tempdir_format in {None (inside the '
        'dataset), <root>/tmp/{uuid}/part-{partition}, <root>/tmp2/p{partition}}, and optionally overwrite=True over a previous '
        'dataset (other rows, other partition count, written by pack_partitions_to_parquet or by DaskGeoDataFrame.to_parquet). '
        'After the call returns: os.listdir(path) == part.0.parquet .. part.(m-1).parquet (regular files) + _metadata + '
        '_common_metadata with 1 <= m <= npartitions and every part holding >= 1 row; nothing but (possibly) empty ancestor '
        'directories under the external temp root; the returned frame and read_parquet_dask(path) each have m partitions and '
        'hold exactly the input row multiset (all columns, canonical geometry), index hilbert_distance == reference distance '
        'of the row, non-decreasing inside and across partitions; no row or file of the previous dataset survives. '
        'Non-trivial: an empty output partition (m < npartitions), an external temp dir, or an overwritten previous dataset. '
        'distinct = distinct cases.')
ASSUMPTIONS = ['the pandas-level GeoSeries.hilbert_distance with explicit total_bounds is the per-row reference (C08)',
               'pyarrow decodes the stored elements (canonical form) correctly',
               '_retry_args={"stop_max_attempt_number": 2}: without injected faults no retry ever triggers; the short limit only bounds the time a deterministic error takes to surface',
               'directories that makedirs created above the formatted per-partition temp directories may remain (not asserted)',
               'dtypes of non-geometry columns and column order after the parquet round trip are not compared']
BUDGET = {'quick': {'shards': 16, 'examples': 800, 'min_evaluations': 400, 'shrink_cap': 20},
          'thorough': {'shards': 16, 'examples': 16000, 'min_evaluations': 8000, 'shrink_cap': 60}}

RETRY = {'stop_max_attempt_number': 2}
PART_RE = re.compile(r'^part\.(\d+)\.parquet$')
TMP_LEAF_RE = re.compile(r'^(part-\d+|p\d+)$')

# predicates usable by known_findings.json ("case_pred")
PREDICATES = {'external_tempdir': lambda case: case.get('tempdir', 'inside') != 'inside'}


def _tempdir_format(root, mode):
    if mode == 'inside':
        return None, None
    if mode == 'external-uuid':
        return os.path.join(root, 'tmp', '{uuid}', 'part-{partition}'), os.path.join(root, 'tmp')
    if mode == 'external-plain':
        return os.path.join(root, 'tmp2', 'p{partition}'), os.path.join(root, 'tmp2')
    if mode == 'sibling-prefix':
        # temp directories NEXT TO the dataset whose path text starts with the dataset path (a string-prefix test is
        # not a containment test); leftovers are caught by the 'entry-next-to-dataset' rule
        return os.path.join(root, 'ds') + '.tmp-{uuid}-{partition}', None
    raise ValueError(mode)


def _walk(top):
    files, dirs = [], []
    for d, ds, fs in os.walk(top):
        for x in ds:
            dirs.append(os.path.relpath(os.path.join(d, x), top))
        for x in fs:
            files.append(os.path.relpath(os.path.join(d, x), top))
    return sorted(files), sorted(dirs)


def _layout(path, k, fails, detail):
    """checks the listing of the dataset directory; returns m (number of part entries) or None"""
    if not os.path.isdir(path):
        fails.append((['C10', 'layout', 'no-dataset-directory'], detail))
        return None
    entries = sorted(os.listdir(path))
    parts = {}
    other = []
    for e in entries:
        mt = PART_RE.match(e)
        if mt:
            parts[int(mt.group(1))] = e
        elif e not in ('_metadata', '_common_metadata'):
            other.append(e)
    listing = [e + ('/' if os.path.isdir(os.path.join(path, e)) else '') for e in entries]
    detail = f'listing={listing}; {detail}'
    dirs = [e for e in parts.values() if not os.path.isfile(os.path.join(path, e)) or os.path.islink(os.path.join(path, e))]
    if dirs:
        fails.append((['C10', 'layout', 'part-is-not-a-plain-file'], f'{dirs[:6]}; {detail}'))
    if other:
        fails.append((['C10', 'layout', 'unexpected-entry'], f'{other[:6]}; {detail}'))
    for mname in ('_metadata', '_common_metadata'):
        if not os.path.isfile(os.path.join(path, mname)):
            fails.append((['C10', 'layout', 'metadata-file-missing'], f'{mname}; {detail}'))
    m = len(parts)
    if sorted(parts) != list(range(m)):
        fails.append((['C10', 'layout', 'parts-not-numbered-contiguously'], f'numbers {sorted(parts)}; {detail}'))
    if m < 1 or m > k:
        fails.append((['C10', 'layout', 'part-count-out-of-range'], f'{m} parts for npartitions={k}; {detail}'))
    return m


def _tempcheck(tmp_root, fails, detail):
    if tmp_root is None or not os.path.exists(tmp_root):
        return
    files, dirs = _walk(tmp_root)
    if files:
        fails.append((['C10', 'tempdir', 'file-left'], f'{files[:6]} under the temp root; {detail}'))
    left = [d for d in dirs if TMP_LEAF_RE.match(os.path.basename(d))]
    if left:
        fails.append((['C10', 'tempdir', 'partition-directory-left'], f'{left[:6]} under the temp root; {detail}'))


def _check_frame(what, ddf, m, gcols, ocols, expected, ref, fails, detail):
    import dask
    parts = lib(['C10', what, 'compute'], lambda: list(dask.compute(*ddf.to_delayed())))
    if ddf.index.name != base.INDEX_NAME:
        fails.append((['C10', what, 'index', 'name'], f'index name {ddf.index.name!r}; {detail}'))
    if m is not None and (len(parts) != m or ddf.npartitions != m):
        fails.append((['C10', what, 'npartitions'], f'{len(parts)} partitions (attribute {ddf.npartitions}) for {m} part files; {detail}'))
    cols_in = sorted(gcols + ocols)
    got, parts_idx = [], []
    for j, part in enumerate(parts):
        if sorted(map(str, part.columns)) != cols_in:
            fails.append((['C10', what, 'columns'], f'partition {j} columns {list(part.columns)} expected {cols_in}; {detail}'))
            return
        if part.index.name != base.INDEX_NAME:
            fails.append((['C10', what, 'index', 'name'], f'partition {j} index name {part.index.name!r}; {detail}'))
        rows = base.frame_rows(part, gcols, ocols)
        got.extend(rows)
        parts_idx.append([r[0] for r in rows])
    if any(len(ix) == 0 for ix in parts_idx):
        fails.append((['C10', what, 'empty-partition'], f'partition sizes {[len(ix) for ix in parts_idx]}: non-empty partitions must be numbered contiguously; {detail}'))
    base.compare_rows('C10', what, got, expected, ref, fails, detail)
    base.check_order('C10', what, parts_idx, fails, detail)


def evaluate(case):
    from spatialpandas.io import read_parquet_dask
    fr = case['frame']
    k, p, mode, comp = case['npartitions'], case['p'], case['tempdir'], case['compression']
    prev = case.get('previous')
    overwrite = bool(case.get('overwrite'))
    if prev is not None and not overwrite:
        return outcome(rejected=True)          # writing over an existing dataset without overwrite is outside the statement
    gdf, gcols, ocols = base.build_frame(fr, 'C10')
    n = len(gdf)
    ref = base.reference_distances('C10', gdf, p)
    expected = {i: rj for _, i, rj in base.frame_rows(gdf, gcols, ocols)}
    if len(expected) != n:
        raise RuntimeError('harness: ids not unique')
    active = next(g for g in fr['geoms'] if g['name'] == fr['active'])
    from .. import model
    n_inert = sum(1 for e in model.to_canonical(gdf[fr['active']].array) if model.is_inert(active['kind'], e))
    distinct = len(set(ref.values()))
    spec = case['parts']
    labels = [f'tmp:{mode}', f'compression:{comp}', f'geoms{len(gcols)}', f'active:{gcols.index(fr["active"])}',
              'k1' if k == 1 else ('k2-4' if k <= 4 else ('k5-8' if k <= 8 else 'k9-16')),
              'rows1' if n == 1 else ('rows2-6' if n <= 6 else 'rows7-24'),
              'in:from_pandas' if isinstance(spec, dict) else f'in-parts{len(spec)}',
              'overwrite' if overwrite else 'no-overwrite']
    if distinct < n:
        labels.append('ties')
    if n_inert:
        labels.append('missing-or-empty-active-geometry')
    if k > distinct:
        labels.append('more-partitions-than-distinct-distances')
    if k > n:
        labels.append('more-partitions-than-rows')
    if not isinstance(spec, dict) and 0 in spec:
        labels.append('empty-input-partition')
    fails = []
    root = tempfile.mkdtemp(prefix='vp_c10_')
    try:
        path = os.path.join(root, 'ds')
        tf, tmp_root = _tempdir_format(root, mode)
        detail = (f'npartitions={k} p={p} tempdir={mode} compression={comp} overwrite={overwrite} parts={spec} rows={n} '
                  f'distinct-distances={distinct}')
        prev_ids = set()
        if prev is not None:
            pg, pgc, poc = base.build_frame(prev['frame'], 'C10')
            prev_ids = set(pg['id'].tolist())
            pd_ = base.make_ddf(pg, [len(pg)])
            if prev['how'] == 'pack':
                lib(['C10', 'previous-dataset', 'pack_partitions_to_parquet'], pd_.pack_partitions_to_parquet, path,
                    npartitions=prev['npartitions'], p=5, _retry_args=RETRY)
            else:
                lib(['C10', 'previous-dataset', 'to_parquet'],
                    pd_.repartition(npartitions=min(prev['npartitions'], len(pg))).to_parquet, path)
            labels.append(f'previous:{prev["how"]}')
            labels.append('previous-has-more-parts' if len([e for e in os.listdir(path) if PART_RE.match(e)]) > min(k, distinct)
                          else 'previous-has-fewer-or-equal-parts')
            detail += f' previous={prev["how"]}/{prev["npartitions"]} parts/{len(pg)} rows'
        ddf = base.make_ddf(gdf, spec)
        B = ['C10', 'pack_partitions_to_parquet', 'tmp:inside' if mode == 'inside' else 'tmp:external']
        try:
            res = lib(B, ddf.pack_partitions_to_parquet, path, npartitions=k, p=p, compression=comp, tempdir_format=tf,
                      overwrite=overwrite, _retry_args=RETRY)
        except Failure as f:
            # state the call left behind: names the mechanism (one root cause = one bucket)
            state = 'no-dataset'
            if os.path.isdir(path):
                placeholders = [e for e in os.listdir(path) if PART_RE.match(e) and os.path.isdir(os.path.join(path, e))]
                state = 'directories-named-part.N.parquet-left' if placeholders else 'no-part-directory-left'
            listing = sorted(e + ('/' if os.path.isdir(os.path.join(path, e)) else '') for e in os.listdir(path)) if os.path.isdir(path) else None
            labels.append('call-raised')
            return outcome(failures=[(f.bucket + [state], f'{f.detail[:300]}; listing={listing}; {detail}')], labels=labels, nontrivial=True)
        m = _layout(path, k, fails, detail)
        _tempcheck(tmp_root, fails, detail)
        extra_top = sorted(set(os.listdir(root)) - {'ds', 'tmp', 'tmp2'})
        if extra_top:
            fails.append((['C10', 'layout', 'entry-next-to-dataset'], f'{extra_top}; {detail}'))
        if m is not None:
            labels.append(f'm{m}' if m <= 4 else ('m5-8' if m <= 8 else 'm9-16'))
            if m < k:
                labels.append('empty-output-partition')
        _check_frame('returned-frame', res, m, gcols, ocols, expected, ref, fails, detail)
        rr = lib(['C10', 'read_parquet_dask'], read_parquet_dask, path)
        _check_frame('reread-frame', rr, m, gcols, ocols, expected, ref, fails, detail)
        nt = (m is not None and m < k) or mode != 'inside' or prev is not None
        seen, uniq = set(), []
        for b, d in fails:
            if tuple(b) not in seen:
                seen.add(tuple(b))
                uniq.append((b, d))
        return outcome(failures=uniq, labels=labels, nontrivial=nt)
    finally:
        shutil.rmtree(root, ignore_errors=True)


# ----------------------------------------------------------------------------- strategy
@st.composite
def _case(draw):
    # configuration first, the (large) frames last: draws made after a large amount of data are less evenly spread
    cfg = {'npartitions': draw(st.one_of(st.sampled_from(range(1, 17)), st.sampled_from(range(2, 17)), st.sampled_from(range(1, 5)))),
           'p': draw(st.one_of(st.sampled_from(range(1, 21)), st.sampled_from(range(2, 21)), st.sampled_from(range(1, 4)))),
           'compression': draw(st.sampled_from(['snappy', 'gzip', None])),
           'tempdir': draw(st.sampled_from(['inside', 'external-uuid', 'inside', 'external-plain', 'sibling-prefix'])),
           'overwrite': False, 'previous': None}
    r = draw(st.sampled_from(range(6)))
    prev = None
    if r <= 1:
        cfg['overwrite'] = True
        prev = {'npartitions': draw(st.sampled_from(range(1, 13))), 'how': draw(st.sampled_from(['to_parquet', 'pack']))}
    elif r == 2:
        cfg['overwrite'] = True                  # overwrite=True with nothing at the path
    fr = draw(base.frames(max_rows=24, max_geoms=2))
    case = {'frame': fr, 'parts': draw(base.partitionings(fr['n']))}
    case.update(cfg)
    if prev is not None:
        pf = draw(base.frames(max_rows=12, max_geoms=1))
        pf['id'] = [1000 + i for i in pf['id']]
        prev['frame'] = pf
        case['previous'] = prev
    return case


def strategy(tier):
    return _case()
