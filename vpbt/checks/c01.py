"""C01 - box-intersection test is geometrically exact for every geometry type."""
import itertools

import numpy as np
from hypothesis import strategies as st

from .. import gen, model, oracle_geom as og
from ..harness import Failure, add_outcome, lib, new_result, outcome, safe_evaluate

PROPERTY = 'C01'
LEVEL = 'exploration'
RULE = ('E3: every simple triangle/quadrilateral (both directions) and every polyline of <=3 vertices on the GxG integer '
        'lattice, plus a catalogue of polygons with holes (and, on half-integer boxes, every choice of start vertex of shell and first hole), against EVERY box with edges on the half-integer lattice '
        '[-1, G] (positive area; degenerate boxes too for point kinds), through Polygon/MultiPolygon/Line/MultiLine/'
        'Ring/MultiPoint arrays; G per tier in scope. E1 (Hypothesis): arrays of 7 kinds x 5 subtypes holding generated '
        'valid shapes (holes, multi-part touching/far/nested, collinear runs, repeated vertices) next to missing/empty '
        'neighbours, re-backed (slice/take/concat/pickle) buffers, exact similarity transforms up to the subtype bound, '
        'feature-aligned boxes in all four corner orders, inds lists. Oracle: exact integer closed-set intersection '
        '(separating axis + crossing number). Non-trivial: bounding boxes of element and box overlap and no vertex of '
        'the element lies strictly inside the open box (so neither the bbox reject nor the vertex-in-box shortcut decides). '
        'distinct = enumerated (shape,box) pairs (distinct by construction) + distinct E1 cases.')
RULE += (' Added after the seeded rounds: half of the E1 cases build the array\'s spatial index before the box tests (a cached index must not change any answer).')
ASSUMPTIONS = ['exact oracle vpbt/oracle_geom.py (self-tested against Liang-Barsky clipping and symmetries at start-up)',
               'polygons valid with holes opposite to the shell; boxes of positive area for line/polygon kinds',
               'coordinates within the exactness bound of the subtype']
SCOPE = {'quick': {'polygon_lattice': 3, 'line_lattice': 3, 'hole_catalogue': True, 'sampled_G4_boxes': '1/8 of boxes chosen by seed'},
         'thorough': {'polygon_lattice': 4, 'line_lattice': 4, 'hole_catalogue': True}}
EXHAUSTIVE = {'quick': True, 'thorough': True}
BUDGET = {'quick': {'shards': 16, 'examples': 3200, 'min_evaluations': 100000},
          'thorough': {'shards': 16, 'examples': 64000, 'min_evaluations': 1000000}}

LINEAR = ('line', 'ring', 'multiline', 'polygon', 'multipolygon')


# ----------------------------------------------------------------------------- evaluate
def _valid_case(case):
    kind = case['kind']
    if kind in ('polygon', 'multipolygon'):
        for el in case['elements']:
            if el is None:
                continue
            polys = [el] if kind == 'polygon' else el
            ipolys = []
            for poly in polys:
                if not poly:
                    continue
                ip = [og.IL(r) for r in poly]
                if not og.valid_polygon(ip):
                    return False
                ipolys.append(ip)
            for i in range(len(ipolys)):
                for j in range(i + 1, len(ipolys)):
                    if not og.parts_compatible(ipolys[i], ipolys[j]):
                        return False
    for b in case['boxes']:
        if kind in LINEAR and (b[0] == b[2] or b[1] == b[3]):
            return False
    return True


def corner_orders(b):
    x0, y0, x1, y1 = b
    return [[x0, y0, x1, y1], [x1, y0, x0, y1], [x0, y1, x1, y0], [x1, y1, x0, y0]]


def nontrivial_pair(kind, el, box):
    if el is None:
        return False
    fl = model.flat_coords(kind, el)
    if not fl:
        return False
    b = og.norm_box(box)
    xs, ys = fl[0::2], fl[1::2]
    if max(xs) < b[0] or min(xs) > b[2] or max(ys) < b[1] or min(ys) > b[3]:
        return False
    return not any(b[0] < x < b[2] and b[1] < y < b[3] for x, y in zip(xs, ys))


def evaluate(case):
    try:
        if not _valid_case(case):
            return outcome(rejected=True)
    except ValueError:
        return outcome(rejected=True)
    kind, subtype, els = case['kind'], case['subtype'], case['elements']
    B = ['C01', kind]
    fails = []
    labels = [kind, subtype, 'reback:' + case.get('reback', 'plain')]
    arr = lib(B + ['construct'], model.reback, kind, els, subtype, case.get('reback', 'plain'))
    got_model = model.to_canonical(arr)
    if got_model != model.canon_elements([model._conv(e, subtype) for e in els]):
        raise RuntimeError(f'harness: array does not hold the case elements: {got_model} vs {els}')
    import spatialpandas as sp
    nt = False
    inds = case.get('inds')
    if case.get('sindex'):
        # a history: the array carries a cached spatial index (as after .sindex / cx / sjoin) when it is asked;
        # the box test is a function of the elements and the box alone
        lib(B + ['sindex'], lambda: arr.sindex)
        labels.append('sindex-cached')
    for box in case['boxes']:
        exp = [og.elem_intersects_box(kind, e, box) for e in els]
        whole = np.asarray(lib(B + ['array'], arr.intersects_bounds, tuple(box)))
        if whole.shape != (len(els),) or whole.dtype != np.bool_:
            fails.append((B + ['array', 'shape-or-dtype'], f'{whole.shape} {whole.dtype}'))
            continue
        for i, (e, g) in enumerate(zip(exp, whole)):
            if bool(g) != e:
                what = 'inert-true' if model.is_inert(kind, els[i]) else ('false-negative' if e else 'false-positive')
                fails.append((B + ['array', what], f'el={els[i]} box={box} expected={e} got={bool(g)} subtype={subtype}'))
                break
        for alt in corner_orders(box)[1:]:
            w2 = np.asarray(lib(B + ['array'], arr.intersects_bounds, tuple(alt)))
            if not np.array_equal(w2, whole):
                fails.append((B + ['corner-order'], f'box={box} alt={alt} {whole.tolist()} vs {w2.tolist()}'))
                break
        if inds is not None:
            for dt in (np.uint32, np.int64):
                ia = np.array(inds, dtype=dt)
                r = np.asarray(lib(B + ['inds'], arr.intersects_bounds, tuple(box), ia))
                if r.tolist() != [bool(whole[i]) for i in inds]:
                    fails.append((B + ['inds'], f'inds={inds} box={box} whole={whole.tolist()} got={r.tolist()}'))
                    break
        for i, e in enumerate(els):
            sc = lib(B + ['getitem'], arr.__getitem__, i)
            if e is None:
                if sc is not None:
                    fails.append((B + ['getitem', 'missing-not-None'], f'i={i}'))
                continue
            if sc is None:
                fails.append((B + ['getitem', 'None-for-present'], f'i={i} el={e}'))
                continue
            for bb in (box, corner_orders(box)[3]):
                r = lib(B + ['scalar'], sc.intersects_bounds, tuple(bb))
                if bool(r) != bool(whole[i]):
                    fails.append((B + ['scalar-vs-array'], f'el={e} box={bb} scalar={bool(r)} array={bool(whole[i])}'))
                    break
        idx = [f'r{i}' for i in range(len(els))][::-1]
        ser = lib(B + ['GeoSeries'], lambda: sp.GeoSeries(arr, index=idx).intersects_bounds(tuple(box)))
        if list(ser.index) != idx or ser.values.tolist() != whole.tolist():
            fails.append((B + ['geoseries'], f'box={box} {ser.values.tolist()} vs {whole.tolist()}'))
        for i, e in enumerate(els):
            if nontrivial_pair(kind, e, box):
                nt = True
                labels.append('nt-true' if exp[i] else 'nt-false')
        if box[2] < box[0] or box[3] < box[1]:
            labels.append('reversed-corners')
        if box[0] == box[2] or box[1] == box[3]:
            labels.append('degenerate-box')
    if any(e is None for e in els):
        labels.append('has-missing')
    labels.extend(case.get('labels', []))
    return outcome(failures=fails, labels=labels, nontrivial=nt)


# ----------------------------------------------------------------------------- E1 strategy
@st.composite
def _case(draw):
    kind = draw(st.sampled_from(model.KINDS + ['polygon', 'multipolygon', 'multiline']))
    subtype = draw(gen.subtypes)
    n_other = draw(st.integers(0, 3))
    target, labels = draw(gen.base_shapes(kind))
    target = gen.no_leafless(target)
    others = []
    for _ in range(n_other):
        c = draw(st.integers(0, 5))
        if c == 0:
            others.append(None)
        elif c == 1:
            # empty element; a NaN point needs a float subtype (an int PointArray cannot hold one)
            others.append(([float('nan'), float('nan')] if subtype.startswith('float') else None) if kind == 'point' else [])
        else:
            others.append(gen.no_leafless(draw(gen.base_shapes(kind))[0]))
    pos = draw(st.integers(0, len(others)))
    base = others[:pos] + [target] + others[pos:]
    ext = gen.extent_of(kind, base) + 8
    xf = draw(gen.transforms(subtype, ext))

    def tx(el):
        if el is None or (kind == 'point' and el and isinstance(el[0], float) and el[0] != el[0]):
            return el
        return gen.apply_xf(kind, el, xf)
    els = [tx(e) for e in base]
    u = gen.unit(xf)
    degenerate_ok = kind in ('point', 'multipoint')
    nb = draw(st.integers(1, 3))
    boxes = []
    for _ in range(nb):
        src = draw(st.sampled_from([e for e in els if e is not None and not (kind == 'point' and e[0] != e[0])] or [els[pos]]))
        fl = model.flat_coords(kind, src) if src is not None else []
        fl = [v for v in fl if v == v]
        boxes.append(draw(gen.feature_boxes(fl, u, allow_degenerate=degenerate_ok)))
    if kind in ('point', 'multipoint') and any(e is None for e in els):
        # the slot of a missing point holds placeholder bytes (zeros): one box that contains the origin and all the data, so
        # a form that reads the slot instead of the validity mask is seen
        allv = [v for e in els if e is not None for v in model.flat_coords(kind, e) if v == v] + [0, 0]
        boxes.append([min(allv[0::2]) - u, min(allv[1::2]) - u, max(allv[0::2]) + u, max(allv[1::2]) + u])
    # positions form: none, a drawn list (repeats, any order, possibly empty), or every position once (so that missing and
    # empty neighbours are asked through this form as well)
    inds = draw(st.one_of(st.none(), st.lists(st.integers(0, len(els) - 1), min_size=0, max_size=6), st.just(list(range(len(els)))[::-1])))
    reback = draw(st.sampled_from(model.REBACKINGS))
    return {'kind': kind, 'subtype': subtype, 'elements': els, 'reback': reback, 'boxes': boxes, 'inds': inds,
            'sindex': draw(st.booleans()),
            'labels': labels + [f'scale2^{xf["m"].bit_length() - 1}' if xf['m'] > 1 else 'scale1', f'q{xf["q"]}']}


def strategy(tier):
    return _case()


# ----------------------------------------------------------------------------- E3 enumeration
def lattice_rings(G):
    pts = [(x, y) for x in range(G) for y in range(G)]
    out = []
    for k in (3, 4):
        for combo in itertools.permutations(pts, k):
            if combo[0] != min(combo):
                continue
            c = [v for p in combo for v in p] + list(combo[0])
            if og.is_simple_ring(c):
                out.append(c)
    return out


def lattice_lines(G, maxv=3):
    pts = [(x, y) for x in range(G) for y in range(G)]
    return [[v for p in combo for v in p] for k in range(1, maxv + 1) for combo in itertools.product(pts, repeat=k)]


def half_boxes(G, degenerate=False):
    e = [v / 2 for v in range(-2, 2 * G + 1)]
    iv = [(a, b) for a in e for b in e if (a <= b if degenerate else a < b)]
    return [(a, c, b, d) for a, b in iv for c, d in iv]


def _r(pts):
    return gen.flat(gen.close(pts))


def hole_catalogue():
    sq = _r(gen.rect_pts(0, 0, 4, 4))
    out = []
    holes = [_r(gen.rect_pts(1, 1, 3, 3))[::-1], _r([(1, 1), (3, 1), (2, 3)]), _r([(2, 1), (3, 2), (2, 3), (1, 2)]),
             _r(gen.rect_pts(1, 1, 2, 3)), _r(gen.rect_pts(1, 1, 2, 2))]

    def cw(r):
        return r if og.area2(r) < 0 else og._rev(r)
    for h in holes:
        out.append([sq, cw(h)])
        out.append([og._rev(sq), og._rev(cw(h))])
    out.append([sq, cw(_r(gen.rect_pts(1, 1, 2, 2))), cw(_r([(3, 1), (3.5, 3), (2.5, 3)]))])
    L = _r([(0, 0), (4, 0), (4, 2), (2, 2), (2, 4), (0, 4)])
    out.append([L, cw(_r([(0.5, 0.5), (1.5, 0.5), (1.5, 1.5), (0.5, 1.5)]))])
    out.append([L, cw(_r([(0.5, 2.5), (1.5, 2.5), (1, 3.5)])), cw(_r([(2.5, 0.5), (3.5, 0.5), (3.5, 1.5)]))])
    U = _r([(0, 0), (4, 0), (4, 4), (3, 4), (3, 1), (1, 1), (1, 4), (0, 4)])
    out.append([U])
    out.append([U, cw(_r([(1.5, 0.25), (2.5, 0.25), (2.5, 0.75), (1.5, 0.75)]))])
    for rings in out:
        assert og.valid_polygon([og.IL(r) for r in rings]), rings
    return out


def _rot(ring, k):
    pts = og.pts_of(ring)[:-1]
    k %= len(pts)
    pts = pts[k:] + pts[:k]
    return [v for q in pts + [pts[0]] for v in q]


def rotated_hole_catalogue():
    """every catalogue polygon with every choice of start vertex for the shell and for the first hole (other holes follow
    the shell's rotation): the segment a kernel would wrongly draw from the end of one ring to the start of the next
    depends on where rings start"""
    out = []
    for rings in hole_catalogue():
        if len(rings) < 2:
            continue
        ns, nh = len(rings[0]) // 2 - 1, len(rings[1]) // 2 - 1
        for ks in range(ns):
            for kh in range(nh):
                out.append([_rot(rings[0], ks), _rot(rings[1], kh)] + [_rot(r, ks) for r in rings[2:]])
    return out


def enum_tasks(tier, seed):
    tasks = []
    sc = SCOPE[tier]
    Gp, Gl = sc['polygon_lattice'], sc['line_lattice']
    nchunk = 8 if tier == 'quick' else 48
    for fam, G in (('poly', Gp), ('line', Gl)):
        for c in range(nchunk):
            tasks.append({'fam': fam, 'G': G, 'chunk': c, 'of': nchunk, 'variant': c % 4})
    for c in range(4):
        tasks.append({'fam': 'holes', 'G': 5, 'chunk': c, 'of': 4, 'variant': c})
    for c in range(2):
        tasks.append({'fam': 'points', 'G': 3, 'chunk': c, 'of': 2, 'variant': c})
    for c in range(4):
        tasks.append({'fam': 'holes-rot', 'G': 5, 'chunk': c, 'of': 4, 'variant': c})
    if tier == 'quick':
        # a seed-chosen eighth of the G=4 polygon boxes on top of the exhaustive G=3 scope
        for c in range(8):
            tasks.append({'fam': 'poly', 'G': 4, 'chunk': (seed % 8) * 8 + c, 'of': 64, 'variant': c % 4, 'sampled': True})
    return tasks


def _vertex_arrays(shapes_flat):
    """group by vertex count -> padded arrays for the vectorised non-triviality rule"""
    n = len(shapes_flat)
    mx = max(len(s) // 2 for s in shapes_flat)
    X = np.full((n, mx), np.nan)
    Y = np.full((n, mx), np.nan)
    for i, s in enumerate(shapes_flat):
        X[i, :len(s) // 2] = s[0::2]
        Y[i, :len(s) // 2] = s[1::2]
    return X, Y


def run_enum_task(task):
    res = new_result()
    fam, G, variant = task['fam'], task['G'], task['variant']
    if fam == 'poly':
        rings = lattice_rings(G)
        boxes = half_boxes(G)
        # variant decides through which array type / subtype the same shapes are pushed
        kind, subtype = [('polygon', 'float64'), ('multipolygon', 'int32'), ('polygon', 'float32'), ('multipolygon', 'int16')][variant]
        els = [[r] if kind == 'polygon' else [[r]] for r in rings]
        flats = rings
        oracle = lambda el, ib: og.poly_box([og.IL(r) for r in (el if kind == 'polygon' else el[0])], ib)  # noqa: E731
        iels = [[og.IL(r)] for r in rings]
        ofn = lambda i, ib: og.poly_box(iels[i], ib)  # noqa: E731
    elif fam == 'line':
        lines = lattice_lines(G)
        boxes = half_boxes(G)
        kind, subtype = [('line', 'float64'), ('multiline', 'int64'), ('line', 'int16'), ('multiline', 'float32')][variant]
        els = [ln if kind == 'line' else [ln] for ln in lines]
        flats = lines
        iels = [og.IL(ln) for ln in lines]
        ofn = lambda i, ib: og.line_box(iels[i], ib)  # noqa: E731
    elif fam == 'holes':
        cat = hole_catalogue()
        boxes = [(a / 4, c / 4, b / 4, d / 4) for a, b in itertools.combinations(range(-2, 19), 2)
                 for c, d in itertools.combinations(range(-2, 19), 2)]
        kind, subtype = [('polygon', 'float64'), ('multipolygon', 'float64'), ('polygon', 'float32'), ('multipolygon', 'float32')][variant]
        els = [rings if kind == 'polygon' else [rings] for rings in cat]
        flats = [[v for r in rings for v in r] for rings in cat]
        iels = [[og.IL(r) for r in rings] for rings in cat]
        ofn = lambda i, ib: og.poly_box(iels[i], ib)  # noqa: E731
    elif fam == 'holes-rot':
        cat = rotated_hole_catalogue()
        boxes = [(a / 2, c / 2, b / 2, d / 2) for a, b in itertools.combinations(range(-2, 11), 2)
                 for c, d in itertools.combinations(range(-2, 11), 2)]
        kind, subtype = [('polygon', 'float64'), ('multipolygon', 'float64'), ('polygon', 'int32'), ('multipolygon', 'float32')][variant]
        if subtype == 'int32':
            cat = [rings for rings in cat if all(float(v) == int(v) for r in rings for v in r)]
        els = [rings if kind == 'polygon' else [rings] for rings in cat]
        flats = [[v for r in rings for v in r] for rings in cat]
        iels = [[og.IL(r) for r in rings] for rings in cat]
        ofn = lambda i, ib: og.poly_box(iels[i], ib)  # noqa: E731
    elif fam == 'points':
        pts = [(x, y) for x in range(G) for y in range(G)]
        mps = [[v for p in combo for v in p] for k in (1, 2) for combo in itertools.combinations(pts, k)]
        boxes = half_boxes(G, degenerate=True)
        kind, subtype = [('multipoint', 'float64'), ('multipoint', 'int16')][variant]
        els = mps
        flats = mps
        iels = [og.IL(m) for m in mps]
        ofn = lambda i, ib: any(og.pt_in_box(x, y, ib) for x, y in og.pts_of(iels[i]))  # noqa: E731
    else:
        raise ValueError(fam)
    boxes = boxes[task['chunk']::task['of']]
    arr = model.build_array(kind, els, subtype)
    X, Y = _vertex_arrays(flats)
    bx0, bx1 = np.nanmin(X, axis=1), np.nanmax(X, axis=1)
    by0, by1 = np.nanmin(Y, axis=1), np.nanmax(Y, axis=1)
    n = len(els)
    bad = []
    ntc = 0
    for b in boxes:
        got = np.asarray(arr.intersects_bounds(b))
        ib = tuple(og.I(v) for v in b)
        exp = np.fromiter((ofn(i, ib) for i in range(n)), dtype=np.bool_, count=n)
        if not np.array_equal(got, exp):
            for i in np.nonzero(got != exp)[0][:2]:
                bad.append((int(i), b))
        overlap = ~((bx1 < b[0]) | (bx0 > b[2]) | (by1 < b[1]) | (by0 > b[3]))
        with np.errstate(invalid='ignore'):
            inside = ((X > b[0]) & (X < b[2]) & (Y > b[1]) & (Y < b[3])).any(axis=1)
        ntc += int((overlap & ~inside).sum())
    res['evaluations'] = n * len(boxes)
    res['nontrivial_count'] = ntc
    res['labels'] = {f'enum:{fam}:G{G}:{kind}:{subtype}': n * len(boxes)}
    if boxes:
        res['samples'] = [{'kind': kind, 'subtype': subtype, 'elements': [els[len(els) // 2]], 'boxes': [list(boxes[len(boxes) // 2])],
                           'note': f'one of {n} shapes x {len(boxes)} boxes enumerated by this task'}]
        res['nt_samples'] = res['samples']
    for i, b in bad[:6]:
        case = {'kind': kind, 'subtype': subtype, 'elements': [els[i]], 'reback': 'plain', 'boxes': [list(b)], 'inds': [0]}
        out = safe_evaluate(__import__('vpbt.checks.c01', fromlist=['x']), case)
        if out['failures']:
            for bb, dd in out['failures'][:1]:
                res['failures'].append({'bucket': bb, 'detail': dd, 'case': case})
        else:
            # disagreement visible only inside the large array: keep neighbours
            lo = max(0, i - 2)
            case = {'kind': kind, 'subtype': subtype, 'elements': els[lo:i + 3], 'reback': 'plain', 'boxes': [list(b)], 'inds': None}
            out = safe_evaluate(__import__('vpbt.checks.c01', fromlist=['x']), case)
            for bb, dd in out['failures'][:1]:
                res['failures'].append({'bucket': bb, 'detail': dd, 'case': case})
            if not out['failures']:
                res['failures'].append({'bucket': ['C01', kind, 'array', 'batch-only'], 'detail': f'shape #{i} box {b}: batch disagreement not reproduced in a small array',
                                        'case': {'kind': kind, 'subtype': subtype, 'elements': els, 'reback': 'plain', 'boxes': [list(b)], 'inds': None}})
    return res
