"""C03 - R-tree queries return exactly the intersecting / covered boxes."""
import itertools
import math

import numpy as np
from hypothesis import strategies as st

from .. import model
from ..harness import lib, new_result, outcome, safe_evaluate

PROPERTY = 'C03'
LEVEL = 'exploration'
RULE = ('Model-based: brute-force interval model over rows (row finite and closed-interval overlap / containment per axis). '
        'E3: d=1, lattice {0,1,2}: every sequence of <=4 rows drawn from the 6 intervals + a NaN row, every query interval '
        '(incl. degenerate), page sizes 1..5, p in {1,2,10}; d=2: every sequence of <=3 rows from the 9 boxes of the 2x2 '
        'lattice + NaN row, all 9 query boxes, page sizes 1..4. E1 (Hypothesis): d in {1,2,3}, n in 0..80, tie-heavy '
        'lattices or wide exact values, duplicates, zero-extent rows, NaN rows, several (p,page_size) configurations per '
        'data set (page sizes 1,2,3,n-1,n,n+1, non powers of two, >n; p in 1..31), queries on the lattice +-1/2, degenerate, '
        'disjoint, all-covering; also through GeometryArray.sindex for d=2. Non-trivial: at least two pages, or a tie '
        'between a row edge and a query edge, or a NaN row present. distinct = enumerated (rows,config,query) triples + distinct E1 cases.')
RULE += (' Added after the seeded rounds: the tree after a pickle round trip; 200-700 undefined rows in front and drawn rows repeated (n up to ~1600).')
ASSUMPTIONS = ['queries have lo <= hi and no NaN (no caller passes anything else)', 'order of returned indices is not asserted']
SCOPE = {'quick': {'d1_rows': 3, 'd2_rows': 2}, 'thorough': {'d1_rows': 4, 'd2_rows': 3}}
EXHAUSTIVE = {'quick': True, 'thorough': True}
BUDGET = {'quick': {'shards': 16, 'examples': 4000, 'min_evaluations': 10000},
          'thorough': {'shards': 16, 'examples': 80000, 'min_evaluations': 100000}}
NAN = float('nan')


def _bounds(rows, d):
    b = np.full((len(rows), 2 * d), np.nan)
    for i, r in enumerate(rows):
        if r is not None:
            b[i, :] = [np.nan if v is None else v for v in r]
    return b


def _defined(r):
    """a row is a box only if every coordinate is defined; None = all-NaN row, a None inside = half-defined row
    (e.g. a geometry with finite x but no finite y): both are 'undefined boxes' that must never be reported"""
    return r is not None and all(v is not None for v in r)


def _model(rows, d, q):
    inter, cover = [], []
    for i, r in enumerate(rows):
        if not _defined(r):
            continue
        if all(r[k] <= q[d + k] and r[d + k] >= q[k] for k in range(d)):
            inter.append(i)
            if all(r[k] >= q[k] and r[d + k] <= q[d + k] for k in range(d)):
                cover.append(i)
    return inter, cover


def _model_total(rows, d):
    fin = [r for r in rows if _defined(r)]
    if not fin:
        return [NAN] * (2 * d)
    return [min(r[k] for r in fin) for k in range(d)] + [max(r[d + k] for r in fin) for k in range(d)]


def _check_tree(B, tree, rows, d, queries, fails, tag):
    tb = lib(B + ['total_bounds'], lambda: tuple(tree.total_bounds))
    exp_tb = _model_total(rows, d)
    half = any(r is not None and not _defined(r) for r in rows)
    if len(tb) != 2 * d or (not half and not model.same_row(tb, exp_tb)):
        fails.append((B + ['total_bounds'] + (['nan-rows'] if any(r is None for r in rows) else []),
                      f'{tag} rows={rows} total_bounds={tb} expected={exp_tb}'))
    for q in queries:
        I, C = _model(rows, d, q)
        got = np.asarray(lib(B + ['intersects'], tree.intersects, tuple(q)))
        gl = sorted(int(v) for v in got)
        if gl != I:
            nanrow = any(not _defined(rows[i]) for i in gl if i < len(rows))
            what = 'duplicates' if len(set(gl)) != len(gl) else ('nan-row-reported' if nanrow else ('missing-rows' if set(I) - set(gl) else 'extra-rows'))
            fails.append((B + ['intersects', what], f'{tag} rows={rows} q={q} got={gl} expected={I}'))
        cov, ov = lib(B + ['covers_overlaps'], tree.covers_overlaps, tuple(q))
        cl, ol = sorted(int(v) for v in cov), sorted(int(v) for v in ov)
        if cl != C or ol != sorted(set(I) - set(C)):
            nanrow = any(not _defined(rows[i]) for i in cl + ol if i < len(rows))
            fails.append((B + ['covers_overlaps'] + (['nan-row-reported'] if nanrow else []),
                          f'{tag} rows={rows} q={q} covers={cl} overlaps={ol} expected covers={C} overlaps={sorted(set(I) - set(C))}'))


def evaluate(case):
    from spatialpandas.spatialindex import HilbertRtree
    d, rows, queries = case['d'], case['rows'], case['queries']
    # larger inputs without more generated data: a run of undefined rows in front and the drawn rows repeated
    rows = [None] * case.get('nan_prefix', 0) + [r if r is None else list(r) for _ in range(case.get('tile', 1)) for r in rows]
    for q in queries:
        if any(q[k] > q[d + k] for k in range(d)):
            return outcome(rejected=True)
    B = ['C03', f'd{d}']
    fails = []
    b = _bounds(rows, d)
    n = len(rows)
    labels = [f'd{d}', 'n0' if n == 0 else ('n1' if n == 1 else ('n<=8' if n <= 8 else ('n>8' if n <= 255 else 'n>255')))]
    if case.get('pickle'):
        labels.append('pickled')
    if case.get('nan_prefix', 0) > 255:
        labels.append('nan-prefix>255')
    nt = any(not _defined(r) for r in rows)
    if any(r is not None and not _defined(r) for r in rows):
        labels.append('half-defined-rows')
    if nt:
        labels.append('nan-rows')
        if all(r is None for r in rows) and rows:
            labels.append('all-nan')
    for q in queries:
        for r in rows:
            if _defined(r) and any(r[k] == q[d + k] or r[d + k] == q[k] or r[k] == q[k] or r[d + k] == q[d + k] for k in range(d)):
                nt = True
                labels.append('tie')
                break
    for p, ps in case['configs']:
        pages = math.ceil(n / max(1, ps)) if n else 0
        if pages >= 2:
            nt = True
            labels.append('pages>=2')
            if n % max(1, ps):
                labels.append('ragged-last-page')
            if pages & (pages - 1):
                labels.append('pages-not-pow2')
        tree = lib(B + ['build'], HilbertRtree, b.copy(), p, ps)
        _check_tree(B, tree, rows, d, queries, fails, f'p={p} page_size={ps}')
        if case.get('pickle'):
            # the index after a pickle round trip (how it travels between Dask workers) is the same index
            import pickle
            t2 = lib(B + ['pickle'], lambda: pickle.loads(pickle.dumps(tree)))
            _check_tree(B + ['pickled'], t2, rows, d, queries, fails, f'pickled p={p} page_size={ps}')
    if d == 2 and case.get('via_array') and rows and all(r is None or _defined(r) for r in rows):
        els = [None if r is None else [r[0], r[1], r[2], r[3]] for r in rows]
        if case['via_array'] == 'empty':
            els = [[] if e is None else e for e in els]
        arr = model.build_array('multipoint', els, 'float64')
        p, ps = case['configs'][0]
        arr = lib(B + ['build_sindex'], arr.build_sindex, p=p, page_size=ps)
        _check_tree(B + ['sindex'], lib(B + ['sindex'], lambda: arr.sindex), rows, d, queries, fails, f'sindex p={p} page_size={ps}')
        labels.append('via-array')
    return outcome(failures=fails, labels=labels, nontrivial=nt)


# ----------------------------------------------------------------------------- E1
@st.composite
def _case(draw):
    d = draw(st.sampled_from([1, 2, 2, 2, 3]))
    n = draw(st.one_of(st.integers(0, 6), st.integers(0, 24), st.integers(0, 80)))
    wide = draw(st.integers(0, 3)) == 0
    if wide:
        coord = st.one_of(st.integers(-2 ** 40, 2 ** 40).map(float), st.floats(-1e6, 1e6, allow_nan=False, width=64))
    else:
        L = draw(st.integers(3, 7))
        coord = st.integers(0, L - 1)
    nan_mode = draw(st.sampled_from(['none', 'none', 'some', 'some', 'all']))

    def row():
        a = [draw(coord) for _ in range(d)]
        b = [draw(coord) for _ in range(d)]
        zero = draw(st.integers(0, 5)) == 0
        lo = [min(x, y) for x, y in zip(a, b)]
        hi = lo[:] if zero else [max(x, y) for x, y in zip(a, b)]
        return lo + hi
    rows = []
    for _ in range(n):
        if nan_mode == 'all' or (nan_mode == 'some' and draw(st.integers(0, 4)) == 0):
            rows.append(None)
        elif nan_mode == 'some' and draw(st.integers(0, 5)) == 0:
            # half-defined box: one axis undefined (both its lo and hi), the others finite
            r = row()
            k = draw(st.integers(0, d - 1))
            r[k] = None
            r[d + k] = None
            rows.append(r)
        elif rows and draw(st.integers(0, 5)) == 0:
            prev = [r for r in rows if _defined(r)]
            rows.append(list(draw(st.sampled_from(prev))) if prev else row())
        else:
            rows.append(row())
    ps_choices = [1, 2, 3, 4, 5, 7, 8, 16, max(1, n - 1), max(1, n), n + 1, 2 * n + 1, 512]
    k = draw(st.integers(1, 3))
    configs = [[draw(st.integers(1, 31)), draw(st.one_of(st.sampled_from(ps_choices), st.integers(1, max(2, 2 * n))))] for _ in range(k)]
    fin = [r for r in rows if _defined(r)]
    qcoord = coord
    if not wide:
        qcoord = st.one_of(coord, coord.map(lambda v: v + 0.5), coord.map(lambda v: v - 0.5), st.just(-5), st.just(50))
    qs = []
    for _ in range(draw(st.integers(1, 4))):
        mode = draw(st.sampled_from(['any', 'any', 'degenerate', 'all', 'row']))
        if mode == 'row' and fin:
            qs.append(list(draw(st.sampled_from(fin))))
            continue
        if mode == 'all':
            qs.append([-2.0 ** 60] * d + [2.0 ** 60] * d)
            continue
        a = [draw(qcoord) for _ in range(d)]
        b = a if mode == 'degenerate' else [draw(qcoord) for _ in range(d)]
        qs.append([min(x, y) for x, y in zip(a, b)] + [max(x, y) for x, y in zip(a, b)])
    via = draw(st.sampled_from([None, None, 'missing', 'empty'])) if d == 2 else None
    nan_prefix = draw(st.one_of(st.just(0), st.just(0), st.just(0), st.integers(1, 5), st.integers(200, 700)))
    tile = draw(st.one_of(st.just(1), st.just(1), st.just(1), st.integers(2, 12)))
    return {'d': d, 'rows': rows, 'configs': configs, 'queries': qs, 'via_array': via, 'nan_prefix': nan_prefix, 'tile': tile,
            'pickle': draw(st.booleans())}


def strategy(tier):
    return _case()


# ----------------------------------------------------------------------------- E3
def enum_tasks(tier, seed):
    sc = SCOPE[tier]
    tasks = []
    for c in range(12):
        tasks.append({'d': 1, 'maxrows': sc['d1_rows'], 'chunk': c, 'of': 12})
    for c in range(12):
        tasks.append({'d': 2, 'maxrows': sc['d2_rows'], 'chunk': c, 'of': 12})
    return tasks


def run_enum_task(task):
    import vpbt.checks.c03 as me
    from spatialpandas.spatialindex import HilbertRtree
    res = new_result()
    d = task['d']
    if d == 1:
        iv = [[a, b] for a in range(3) for b in range(a, 3)]
        queries = [[a, b] for a in range(3) for b in range(a, 3)] + [[0.5, 1.5], [-1, -0.5]]
        page_sizes = [1, 2, 3, 4, 5]
        ps_p = [1, 2, 10]
    else:
        ax = [[a, b] for a in range(2) for b in range(a, 2)]
        iv = [[x[0], y[0], x[1], y[1]] for x in ax for y in ax]
        queries = [list(r) for r in iv] + [[0.5, 0.5, 1.5, 1.5], [-1, -1, 2, 2]]
        page_sizes = [1, 2, 3, 4]
        ps_p = [3]
    types = iv + [None]
    seqs = [list(s) for k in range(task['maxrows'] + 1) for s in itertools.product(types, repeat=k)]
    seqs = seqs[task['chunk']::task['of']]
    ev = nt = 0
    for rows in seqs:
        b = _bounds(rows, d)
        n = len(rows)
        for ps in page_sizes:
            if ps > n + 1:
                continue
            for p in ps_p:
                fails = []
                tree = HilbertRtree(b.copy(), p, ps)
                _check_tree(['C03', f'd{d}'], tree, rows, d, queries, fails, f'p={p} page_size={ps}')
                ev += len(queries)
                if n > ps or any(r is None for r in rows):
                    nt += len(queries)
                else:
                    nt += sum(1 for q in queries if any(r[k] in (q[k], q[d + k]) or r[d + k] in (q[k], q[d + k]) for r in rows for k in range(d)))
                if fails and len(res['failures']) < 6:
                    case = {'d': d, 'rows': rows, 'configs': [[p, ps]], 'queries': queries, 'via_array': None}
                    out = safe_evaluate(me, case)
                    for bb, dd in out['failures'][:2]:
                        res['failures'].append({'bucket': bb, 'detail': dd, 'case': case})
    res['evaluations'] = ev
    res['nontrivial_count'] = nt
    res['labels'] = {f'enum:d{d}': ev}
    if seqs:
        res['samples'] = [{'d': d, 'rows': seqs[len(seqs) // 2], 'configs': [[ps_p[0], page_sizes[0]]], 'queries': queries[:3],
                           'note': f'one of {len(seqs)} row sequences x page sizes {page_sizes} x p {ps_p} x {len(queries)} queries'}]
        res['nt_samples'] = res['samples']
    return res
