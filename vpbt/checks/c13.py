"""C13 - bounds and total_bounds are the tight extents of the geometry."""
import numpy as np
from hypothesis import strategies as st

from .. import dasktools, gen, model
from ..harness import lib, outcome

PROPERTY = 'C13'
LEVEL = 'exploration'
RULE = ('E1 (Hypothesis): arrays of all 7 kinds x 5 subtypes, 0..8 elements drawn from "any structure" generators '
        '(0..6 vertices, repeated vertices, degenerate / empty rings and parts, values on a small lattice or at the '
        'extremes of the subtype, NaN / +-inf coordinates for float subtypes), missing and empty elements at any position, '
        're-backed (slice / slice-of-slice / take / concat / pickle) buffers; oracle = pure-Python min/max over finite '
        'coordinates per axis. Checked: bounds, total_bounds, total_bounds_x/_y, GeoSeries.bounds/total_bounds, '
        'sindex.total_bounds, Dask bounds/total_bounds over a drawn partitioning (empty partitions included), Dask total_bounds after '
        'a row filter applied to a frame whose partition bounds were already cached. '
        'Non-trivial: a missing element, a non-finite coordinate, or a non-zero buffer offset. distinct = distinct cases.')
ASSUMPTIONS = ['pyarrow decodes the stored elements (canonical form) correctly', 'integer -> float64 conversion is correctly rounded on both sides']
BUDGET = {'quick': {'shards': 16, 'examples': 4800, 'min_evaluations': 2000},
          'thorough': {'shards': 16, 'examples': 96000, 'min_evaluations': 40000}}


def _flat(e):
    if isinstance(e, list):
        for x in e:
            yield from _flat(x)
    else:
        yield e


def _rows_equal(got, exp):
    got = np.asarray(got, dtype=np.float64)
    if got.shape != (len(exp), 4):
        return f'shape {got.shape} expected ({len(exp)}, 4)'
    for i, (g, e) in enumerate(zip(got, exp)):
        if not model.same_row(g, e):
            return f'row {i}: got {g.tolist()} expected {list(e)}'
    return None


def evaluate(case):
    import spatialpandas as sp
    kind, subtype, els = case['kind'], case['subtype'], case['elements']
    B = ['C13', kind]
    fails = []
    arr = lib(B + ['construct'], model.reback, kind, els, subtype, case.get('reback', 'plain'))
    canon = model.to_canonical(arr)
    exp_b = model.ref_bounds(kind, canon)
    exp_t = model.ref_total_bounds(kind, canon)
    has_missing = any(e is None for e in els)
    nonfinite = any(isinstance(v, str) for e in canon if e is not None for v in _flat(e))
    tag = (['with-missing'] if has_missing else []) + (['non-finite'] if nonfinite else [])

    b = lib(B + ['bounds'] + tag, lambda: arr.bounds)
    err = _rows_equal(b, exp_b)
    if err:
        fails.append((B + ['bounds', 'wrong'] + tag, f'{err}; elements={els} subtype={subtype} reback={case.get("reback")}'))
    for name, exp in (('total_bounds', exp_t), ('total_bounds_x', (exp_t[0], exp_t[2])), ('total_bounds_y', (exp_t[1], exp_t[3]))):
        got = lib(B + [name] + tag, lambda: tuple(getattr(arr, name)))
        if not model.same_row(got, exp):
            fails.append((B + [name, 'wrong'] + tag, f'got {got} expected {exp}; elements={els} subtype={subtype} reback={case.get("reback")}'))
    idx = case.get('index') or list(range(len(els)))
    ser = lib(B + ['GeoSeries'], sp.GeoSeries, arr, index=idx)
    sb = lib(B + ['GeoSeries.bounds'] + tag, lambda: ser.bounds)
    if list(sb.columns) != ['x0', 'y0', 'x1', 'y1'] or list(sb.index) != list(idx):
        fails.append((B + ['GeoSeries.bounds', 'labels'], f'columns={list(sb.columns)} index={list(sb.index)}'))
    else:
        err = _rows_equal(sb.values, exp_b)
        if err:
            fails.append((B + ['GeoSeries.bounds', 'wrong'] + tag, err))
    st_ = lib(B + ['GeoSeries.total_bounds'] + tag, lambda: tuple(ser.total_bounds))
    if not model.same_row(st_, exp_t):
        fails.append((B + ['GeoSeries.total_bounds', 'wrong'] + tag, f'got {st_} expected {exp_t}'))
    # A spatial index is defined over boxes that are either defined or undefined (C03); an element with finite
    # coordinates on one axis only (e.g. [nan, 5]) has a half-defined box and is outside that comparison.
    partial = any(any(v != v for v in r) and not all(v != v for v in r) for r in exp_b)
    if len(els) and not partial:
        sx = lib(B + ['sindex.total_bounds'] + tag, lambda: tuple(model.reback(kind, els, subtype, case.get('reback', 'plain')).sindex.total_bounds))
        if not model.same_row(sx, exp_t):
            fails.append((B + ['sindex.total_bounds', 'wrong'] + tag, f'got {sx} expected {exp_t}; elements={els}'))
    sizes = case.get('partitions')
    if sizes and len(els):
        gdf = sp.GeoDataFrame({'g': arr, 'v': np.arange(len(els))}, index=idx)
        ddf = dasktools.ddf_from_sizes(gdf, sizes)
        dt = lib(B + ['dask.total_bounds'] + tag, lambda: tuple(ddf['g'].total_bounds))
        if not model.same_row(dt, exp_t):
            fails.append((B + ['dask.total_bounds', 'wrong'] + tag, f'got {dt} expected {exp_t}; sizes={sizes} elements={els}'))
        # after a row filter the Dask versions must describe the rows that are left, also when partition bounds were
        # cached on the parent frame before filtering
        cut = case.get('filter_from', 0) % (len(els) + 1)
        lib(B + ['dask.partition_sindex'] + tag, lambda: ddf.partition_sindex)
        fddf = lib(B + ['dask.filter'] + tag, lambda: ddf[ddf['v'] >= cut])
        ft = lib(B + ['dask.filtered.total_bounds'] + tag, lambda: tuple(fddf['g'].total_bounds))
        exp_f = model.ref_total_bounds(kind, canon[cut:])
        if not model.same_row(ft, exp_f):
            fails.append((B + ['dask.filtered.total_bounds', 'wrong'] + tag, f'got {ft} expected {exp_f}; rows >= {cut} kept; sizes={sizes} elements={els}'))
        db = lib(B + ['dask.bounds'] + tag, lambda: ddf['g'].bounds.compute())
        err = _rows_equal(db.values, exp_b)
        if err or list(db.index) != list(idx):
            fails.append((B + ['dask.bounds', 'wrong'] + tag, f'{err}; sizes={sizes}'))
    labels = [kind, subtype, 'reback:' + case.get('reback', 'plain')] + tag
    if not els:
        labels.append('zero-rows')
    if partial:
        labels.append('half-defined-box(no sindex comparison)')
    if sizes:
        labels.append('dask')
        if 0 in sizes:
            labels.append('dask-empty-partition')
    nt = has_missing or nonfinite or case.get('reback', 'plain') != 'plain'
    return outcome(failures=fails, labels=labels, nontrivial=nt)


@st.composite
def _case(draw):
    case = draw(gen.any_array_case(nonfinite=True, wide=draw(st.booleans())))
    n = len(case['elements'])
    if draw(st.integers(0, 3)) == 0 and n:
        case['partitions'] = draw(gen.partition_splits(n, 4))
        case['filter_from'] = draw(st.integers(0, n))
    if draw(st.booleans()):
        case['index'] = [f'k{(i * 7) % 5}' for i in range(n)]
    return case


def strategy(tier):
    return _case()
