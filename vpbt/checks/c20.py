"""C20 - the active geometry column is honoured and survives frame operations (stateful, model-based)."""
import os
import pickle
import shutil
import tempfile

import numpy as np
from hypothesis import strategies as st

from .. import dasktools, model, oracle_geom as og
from ..harness import Failure, lib, make_machine, outcome

PROPERTY = 'C20'
LEVEL = 'exploration'
RULE = ('E2 (Hypothesis rule-based state machine, history replayable from its step log). Header: a GeoDataFrame of 3..8 rows with '
        'three geometry columns of different kinds (points / polygons / lines placed in three disjoint regions so that a query '
        'box over one region selects rows only if THAT column is the active one), an id and a float column, a drawn index kind, '
        'and an active column that is not the first geometry column and not named "geometry". Steps: iloc slice/list, loc mask, '
        'boolean [], head/tail, sort_values, sort_index, copy, GeoDataFrame(gdf), column subset containing the active column, column subset without '
        'any geometry (must be a plain DataFrame), cx, pickle, pd.concat of two live frames agreeing on the active column, '
        'set_geometry(other) on pandas and on Dask, Dask round trip from_pandas(npartitions=1..4).compute(), per-partition active name via map_partitions, '
        'parquet write + read_parquet_dask(geometry=<any geometry column>), build_sindex, sjoin, Dask partition bounds / '
        'pack_partitions. Model: dict of columns + active name + exact row filter (C01 oracle) on the active column. After every '
        'step: result type, .geometry.name == model active, rows/ids/index as the model says, behaviour follows the active column. '
        'Non-trivial: history with >= 2 steps of which at least one is a set_geometry / concat / Dask / parquet step. '
        'distinct = distinct histories.')
RULE += (' Added after the seeded rounds: the lazy result of Dask cx (type, .geometry, per-partition name, total_bounds); pack_partitions after a pack along another geometry column.')
ASSUMPTIONS = ['operations not listed in the statement (merge, groupby ...) are not exercised', 'column order is not asserted']
BUDGET = {'quick': {'stateful_shards': 16, 'stateful_examples': 800, 'steps': 8, 'min_evaluations': 300},
          'thorough': {'stateful_shards': 16, 'stateful_examples': 6000, 'steps': 12, 'min_evaluations': 2500}}
LOG = []
GEOMS = ['pts', 'polys', 'lines']
KIND = {'pts': 'point', 'polys': 'polygon', 'lines': 'line'}
REGION = {'pts': 0, 'polys': 100, 'lines': 200}


def _rect(x0, y0, w, h):
    return [[x0, y0, x0 + w, y0, x0 + w, y0 + h, x0, y0 + h, x0, y0]]


class Interp:
    def __init__(self):
        self.live = []      # [frame, model]
        self._labels = set()
        self._tmp = None
        self.big = 0
        self.nsteps = 0

    def labels(self):
        return sorted(self._labels)

    def nontrivial(self):
        return self.nsteps >= 2 and self.big >= 1

    def close(self):
        if self._tmp:
            shutil.rmtree(self._tmp, ignore_errors=True)
            self._tmp = None

    def tmp(self):
        if not self._tmp:
            self._tmp = tempfile.mkdtemp(prefix='vp_c20_')
        return self._tmp

    # ------------------------------------------------------------------ model helpers
    def build(self, h):
        import pandas as pd
        import spatialpandas as sp
        rows = h['rows']
        n = len(rows)
        els = {'pts': [], 'polys': [], 'lines': []}
        for r in rows:
            els['pts'].append(None if r['pt'] is None else [REGION['pts'] + r['pt'][0], r['pt'][1]])
            els['polys'].append(None if r['poly'] is None else _rect(REGION['polys'] + r['poly'][0], r['poly'][1], r['poly'][2], r['poly'][3]))
            els['lines'].append(None if r['line'] is None else [REGION['lines'] + r['line'][0], r['line'][1], REGION['lines'] + r['line'][2], r['line'][3]])
        idx = {'default': list(range(n)), 'strings': [f'k{i}' for i in range(n)], 'nonunique': [i // 2 for i in range(n)],
               'reversed': list(range(n, 0, -1))}[h['index']]
        cols = {}
        order = h['order']            # order of geometry columns in the frame
        for g in order:
            cols[g] = model.build_array(KIND[g], els[g], h['subtypes'][g])
        data = {'id': list(range(n)), order[0]: cols[order[0]], 'w': [float((i * 7) % 5) for i in range(n)], order[1]: cols[order[1]], order[2]: cols[order[2]]}
        df = sp.GeoDataFrame(data, index=pd.Index(idx, name=h.get('index_name')))
        mdl = {'ids': list(range(n)), 'index': list(idx), 'active': order[0], 'cols': ['id', order[0], 'w', order[1], order[2]],
               'els': els, 'index_name': h.get('index_name')}
        self.check(df, mdl, ['C20', 'init'])
        df = lib(['C20', 'set_geometry'], df.set_geometry, h['active'])
        mdl = dict(mdl, active=h['active'])
        self.els = els
        self.subtypes = h['subtypes']
        return df, mdl

    def el(self, col, rid):
        return self.els[col][rid]

    def expected_cx(self, mdl, box):
        a = mdl['active']
        return [k for k, rid in enumerate(mdl['ids']) if og.elem_intersects_box(KIND[a], self.el(a, rid), box)]

    def check(self, df, mdl, B, plain_ok=False):
        import pandas as pd
        import spatialpandas as sp
        if not isinstance(df, sp.GeoDataFrame):
            raise Failure(B + ['type'], f'{type(df).__name__} instead of GeoDataFrame')
        try:
            name = df.geometry.name
        except Exception as e:  # noqa: BLE001
            raise Failure(B + ['active-geometry-lost'], f'.geometry raises {type(e).__name__}: {str(e)[:120]} (_geometry={getattr(df, "_geometry", None)!r}, expected {mdl["active"]!r})') from e
        if name != mdl['active']:
            raise Failure(B + ['active-geometry-wrong'], f'.geometry.name={name!r} expected {mdl["active"]!r}')
        if list(df['id']) != mdl['ids'] or list(df.index) != mdl['index']:
            raise Failure(B + ['rows'], f'ids={list(df["id"])} index={list(df.index)} expected ids={mdl["ids"]} index={mdl["index"]}')
        if sorted(map(str, df.columns)) != sorted(mdl['cols']):
            raise Failure(B + ['columns'], f'{list(df.columns)} expected {mdl["cols"]}')
        for g in GEOMS:
            if g in mdl['cols']:
                got = model.to_canonical(df[g].array)
                exp = model.canon_elements([model._conv(self.el(g, rid), self.subtypes[g]) for rid in mdl['ids']]) if hasattr(self, 'els') else None
                if exp is not None and got != exp:
                    raise Failure(B + ['geometry-values', g], f'{got} expected {exp}')

    def pick(self, k):
        return self.live[k % len(self.live)]

    def push(self, df, mdl, B):
        self.check(df, mdl, B)
        self.live.append([df, mdl])
        if len(self.live) > 4:
            self.live.pop(0)

    def sub(self, mdl, pos):
        return dict(mdl, ids=[mdl['ids'][i] for i in pos], index=[mdl['index'][i] for i in pos])

    # ------------------------------------------------------------------ steps
    def apply(self, s):
        import pandas as pd
        import spatialpandas as sp
        op = s['op']
        B = ['C20', op]
        if op == 'init':
            df, mdl = self.build(s)
            self.push(df, mdl, B)
            return
        self.nsteps += 1
        self._labels.add(op)
        df, mdl = self.pick(s.get('src', 0))
        n = len(mdl['ids'])
        if op == 'iloc_slice':
            a, b = s['a'] % (n + 1), s['b'] % (n + 1)
            a, b = min(a, b), max(a, b)
            self.push(lib(B, lambda: df.iloc[a:b]), self.sub(mdl, list(range(a, b))), B)
        elif op == 'iloc_list':
            pos = [v % n for v in s['rows']] if n else []
            self.push(lib(B, lambda: df.iloc[pos]), self.sub(mdl, pos), B)
        elif op in ('loc_mask', 'bool_getitem'):
            bits = [bool(s['bits'][i % len(s['bits'])]) for i in range(n)] if s['bits'] else [True] * n
            m = pd.Series(bits, index=df.index, dtype=bool)
            if op == 'loc_mask':
                new = lib(B, lambda: df.loc[m.values])
            else:
                new = lib(B, lambda: df[m.values])
            self.push(new, self.sub(mdl, [i for i, b in enumerate(bits) if b]), B)
        elif op in ('head', 'tail'):
            k = s['k'] % (n + 1)
            pos = list(range(min(k, n))) if op == 'head' else list(range(max(0, n - k), n)) if k else []
            self.push(lib(B, lambda: getattr(df, op)(k)), self.sub(mdl, pos), B)
        elif op == 'sort_values':
            by, asc = (s['by'] if s['by'] in mdl['cols'] else 'id'), s['asc']
            vals = [(rid if by == 'id' else float((rid * 7) % 5)) for rid in mdl['ids']]
            pos = sorted(range(n), key=lambda i: vals[i], reverse=not asc)   # stable, like kind='stable'
            new = lib(B, lambda: df.sort_values(by, ascending=asc, kind='stable'))
            self.push(new, self.sub(mdl, pos), B)
        elif op == 'sort_index':
            if len(set(map(type, mdl['index']))) > 1:
                return
            pos = sorted(range(n), key=lambda i: mdl['index'][i], reverse=not s['asc'])
            new = lib(B, lambda: df.sort_index(ascending=s['asc'], kind='stable'))
            self.push(new, self.sub(mdl, pos), B)
        elif op == 'copy':
            self.push(lib(B, lambda: df.copy(deep=s['deep'])), dict(mdl), B)
        elif op == 'pickle':
            self.push(lib(B, lambda: pickle.loads(pickle.dumps(df))), dict(mdl), B)
        elif op == 'reconstruct':
            # GeoDataFrame(gdf) inherits the active geometry of its input
            self.push(lib(B, lambda: sp.GeoDataFrame(df)), dict(mdl), B)
        elif op == 'dask_set_geometry':
            import dask.dataframe as dd
            cands = [c for c in mdl['cols'] if c in GEOMS]
            g = cands[s['which'] % len(cands)]
            if n == 0:
                return
            if s.get('in_memory'):
                # partitions are in-memory frames (as after persist()/from_delayed): set_geometry on the collection must
                # not change them for the source collection
                ddf = dasktools.ddf_from_sizes(df, _sizes(n, [s['npartitions'], s['which'] + 1]))
            else:
                ddf = lib(B + ['from_pandas'], dd.from_pandas, df, npartitions=1 + s['npartitions'] % 3, sort=False)
            ddf2 = lib(B, ddf.set_geometry, g)
            nm = lib(B + ['ddf.geometry'], lambda: ddf2.geometry.name)
            if nm != g:
                raise Failure(B + ['ddf-active-wrong'], f'{nm} expected {g}')
            names = lib(B + ['map_partitions'], lambda: list(ddf2.map_partitions(lambda d: pd.Series([d.geometry.name]), meta=pd.Series([], dtype=object)).compute()))
            if any(x != g for x in names):
                raise Failure(B + ['partition-active-wrong'], f'partitions report {names} after set_geometry({g!r})')
            self.big += 1
            m2 = dict(mdl, active=g)
            self.push(lib(B + ['compute'], ddf2.compute), m2, B + ['compute'])
            x0 = REGION[g] - 5
            box = [x0, -5, x0 + 30, 30]
            sel = lib(B + ['dask.cx'], lambda: ddf2.cx[box[0]:box[2], box[1]:box[3]].compute())
            exp = sorted(m2['ids'][i] for i in self.expected_cx(m2, box))
            if sorted(sel['id']) != exp:
                raise Failure(B + ['dask.cx', 'wrong-rows', 'active=' + g], f'ids={sorted(sel["id"])} expected {exp}')
            # ... and the source collection still uses its own active column, also inside its partitions
            names0 = lib(B + ['source-after', 'map_partitions'], lambda: list(ddf.map_partitions(lambda d: pd.Series([d.geometry.name]), meta=pd.Series([], dtype=object)).compute()))
            if any(x != mdl['active'] for x in names0) or lib(B + ['source-after'], lambda: ddf.compute().geometry.name) != mdl['active']:
                raise Failure(B + ['source-collection-changed'], f'source partitions report {names0} after set_geometry({g!r}) on a derived collection; source active is {mdl["active"]!r}')
            self.check(df, mdl, B + ['source-frame-after'])
        elif op == 'setgeom_same_then_inplace':
            # set_geometry(<already active>) must give an independent frame: an in-place change of the result
            # (a helper normalising its input) must not leak into the source
            cands = [c for c in mdl['cols'] if c in GEOMS and c != mdl['active']]
            if not cands:
                return
            tmpf = lib(B, df.set_geometry, mdl['active'])
            self.check(tmpf, mdl, B + ['result'])
            lib(B + ['inplace'], lambda: tmpf.set_geometry(cands[s['which'] % len(cands)], inplace=True))
            self.check(df, mdl, B + ['source-after'])
            self.big += 1
        elif op == 'col_subset':
            keep = [c for c in mdl['cols'] if c == mdl['active'] or c == 'id' or (c in s['extra'])]
            new = lib(B, lambda: df[keep])
            self.push(new, dict(mdl, cols=keep), B)
        elif op == 'col_subset_nogeom':
            keep = [c for c in mdl['cols'] if c not in GEOMS]
            new = lib(B, lambda: df[keep])
            if type(new) is not pd.DataFrame:
                raise Failure(B + ['not-plain-dataframe'], f'result without geometry columns has type {type(new).__name__}')
        elif op == 'set_geometry':
            cands = [c for c in mdl['cols'] if c in GEOMS]
            g = cands[s['which'] % len(cands)]
            new = lib(B, df.set_geometry, g)
            self.big += 1
            self.push(new, dict(mdl, active=g), B)
            # the source frame keeps its own active column
            self.check(df, mdl, B + ['source-after'])
        elif op == 'cx':
            a = mdl['active']
            x0 = REGION[s['region']] - 5
            box = [x0 + s['dx0'], -5 + s['dy0'], x0 + 30 - s['dx1'], 30 - s['dy1']]
            if s.get('indexed'):
                df = lib(B + ['build_sindex'], df.build_sindex, page_size=s.get('page_size', 2))
            new = lib(B, lambda: df.cx[box[0]:box[2], box[1]:box[3]])
            pos = self.expected_cx(mdl, box)
            try:
                self.push(new, self.sub(mdl, pos), B)
            except Failure as f:
                if 'rows' in f.bucket:
                    raise Failure(B + ['wrong-rows', 'active=' + a, 'region=' + s['region']], f.detail) from f
                raise
            if s['region'] == a:
                self._labels.add('cx-on-active-region')
        elif op == 'build_sindex':
            a = mdl['active']
            df2 = lib(B, lambda: df.copy().build_sindex(page_size=s.get('page_size', 2)))
            # which column got the index (observed through the arrays' index slot, when the implementation has one)
            built = {g: getattr(df2[g].array, '_sindex', None) is not None for g in GEOMS if g in mdl['cols'] and hasattr(df2[g].array, '_sindex')}
            if built and n and (not built.get(a, True) or any(v for g, v in built.items() if g != a)):
                raise Failure(B + ['index-built-on-wrong-column'], f'index present on {built}, active column is {a}')
            tb = lib(B + ['total_bounds'], lambda: tuple(df2.geometry.sindex.total_bounds))
            exp = model.ref_total_bounds(KIND[a], [self.el(a, rid) for rid in mdl['ids']])
            if not model.same_row(tb, exp):
                raise Failure(B + ['sindex-of-wrong-column'], f'sindex.total_bounds={tb} expected {exp} (active {a})')
        elif op == 'concat':
            df2, mdl2 = self.pick(s.get('other', 1))
            if mdl2['active'] != mdl['active'] or sorted(mdl2['cols']) != sorted(mdl['cols']):
                self._labels.add('concat-skipped-disagree')
                return
            new = lib(B, lambda: pd.concat([df, df2]))
            self.big += 1
            self.push(new, dict(mdl, ids=mdl['ids'] + mdl2['ids'], index=mdl['index'] + mdl2['index']), B)
        elif op == 'dask_roundtrip':
            import dask.dataframe as dd
            if n == 0:
                return
            k = 1 + s['npartitions'] % 4
            if s.get('sizes'):
                ddf = dasktools.ddf_from_sizes(df, _sizes(n, s['sizes']))
            else:
                ddf = lib(B + ['from_pandas'], dd.from_pandas, df, npartitions=k, sort=False)
            if type(ddf).__name__ != 'DaskGeoDataFrame':
                raise Failure(B + ['type'], type(ddf).__name__)
            nm = lib(B + ['ddf.geometry'], lambda: ddf.geometry.name)
            if nm != mdl['active']:
                raise Failure(B + ['ddf-active-wrong'], f'{nm} expected {mdl["active"]}')
            names = lib(B + ['map_partitions'], lambda: list(ddf.map_partitions(lambda d: pd.Series([d.geometry.name]), meta=pd.Series([], dtype=object)).compute()))
            if any(x != mdl['active'] for x in names):
                raise Failure(B + ['partition-active-wrong'], f'{names} expected all {mdl["active"]}')
            new = lib(B + ['compute'], ddf.compute)
            self.big += 1
            self._labels.add(f'dask-parts{ddf.npartitions}')
            self.push(new, dict(mdl), B + ['compute'])
            # Dask cx honours the active column
            a = mdl['active']
            x0 = REGION[s.get('region', a)] - 5
            box = [x0, -5, x0 + 30, 30]
            lazy = lib(B + ['dask.cx'], lambda: ddf.cx[box[0]:box[2], box[1]:box[3]])
            # cx keeps the active column: in the lazy result's own description (what every later spatial operation on it
            # goes by), in each of its partitions, and in the computed frame
            if type(lazy).__name__ != 'DaskGeoDataFrame':
                raise Failure(B + ['dask.cx', 'type'], type(lazy).__name__)
            nm = lib(B + ['dask.cx', 'geometry'], lambda: lazy.geometry.name)
            if nm != a:
                raise Failure(B + ['dask.cx', 'lazy-result-active-wrong'], f'{nm} expected {a} ({ddf.npartitions} partitions)')
            names = lib(B + ['dask.cx', 'map_partitions'], lambda: list(lazy.map_partitions(lambda d: pd.Series([d.geometry.name]), meta=pd.Series([], dtype=object)).compute()))
            if any(x != a for x in names):
                raise Failure(B + ['dask.cx', 'partition-active-wrong'], f'{names} expected all {a}')
            sel = lib(B + ['dask.cx'], lazy.compute)
            exp = sorted(mdl['ids'][i] for i in self.expected_cx(mdl, box))
            if sorted(sel['id']) != exp:
                raise Failure(B + ['dask.cx', 'wrong-rows', 'active=' + a], f'ids={sorted(sel["id"])} expected {exp} box={box}')
            if len(sel) and sel.geometry.name != a:
                raise Failure(B + ['dask.cx', 'computed-active-wrong'], f'{sel.geometry.name} expected {a}')
            ltb = lib(B + ['dask.cx', 'total_bounds'], lambda: tuple(lazy.geometry.total_bounds))
            lref = model.ref_total_bounds(KIND[a], [self.el(a, rid) for rid in exp])
            if not model.same_row(ltb, lref):
                raise Failure(B + ['dask.cx', 'total_bounds-of-wrong-column'], f'{ltb} expected {lref} (active {a}, {ddf.npartitions} partitions)')
            pb = lib(B + ['partition_bounds'], lambda: ddf.geometry.partition_bounds)
            tb = (np.nanmin(pb['x0']), np.nanmin(pb['y0']), np.nanmax(pb['x1']), np.nanmax(pb['y1'])) if len(pb) else None
            ref = model.ref_total_bounds(KIND[a], [self.el(a, rid) for rid in mdl['ids']])
            if tb is not None and not model.same_row(tb, ref):
                raise Failure(B + ['partition-bounds-of-wrong-column'], f'{tb} expected {ref}')
        elif op == 'parquet_dask':
            import dask.dataframe as dd
            from spatialpandas.io import read_parquet_dask
            if n == 0:
                return
            cands = [c for c in mdl['cols'] if c in GEOMS]
            g = cands[s['which'] % len(cands)]
            path = os.path.join(self.tmp(), f'd{len(os.listdir(self.tmp()))}.parq')
            k = 1 + s['npartitions'] % 3
            lib(B + ['to_parquet'], lambda: dd.from_pandas(df, npartitions=k, sort=False).to_parquet(path))
            ddf = lib(B + ['read_parquet_dask'], read_parquet_dask, path, geometry=g)
            nm = lib(B + ['ddf.geometry'], lambda: ddf.geometry.name)
            if nm != g:
                raise Failure(B + ['ddf-active-wrong'], f'{nm} expected {g}')
            names = lib(B + ['map_partitions'], lambda: list(ddf.map_partitions(lambda d: pd.Series([d.geometry.name]), meta=pd.Series([], dtype=object)).compute()))
            if any(x != g for x in names):
                raise Failure(B + ['partition-active-wrong'], f'partitions report {names}, geometry={g!r} requested')
            new = lib(B + ['compute'], ddf.compute)
            self.big += 1
            m2 = dict(mdl, active=g)
            if sorted(new['id']) != sorted(mdl['ids']):
                raise Failure(B + ['rows'], f'{list(new["id"])}')
            # row order within from_pandas partitions is preserved; index round-trips
            m2 = dict(m2, ids=list(new['id']), index=list(new.index))
            self.push(new, m2, B + ['compute'])
            x0 = REGION[g] - 5
            box = [x0, -5, x0 + 30, 30]
            sel = lib(B + ['dask.cx'], lambda: ddf.cx[box[0]:box[2], box[1]:box[3]].compute())
            exp = sorted(m2['ids'][i] for i in self.expected_cx(m2, box))
            if sorted(sel['id']) != exp:
                raise Failure(B + ['dask.cx', 'wrong-rows', 'active=' + g], f'ids={sorted(sel["id"])} expected {exp}')
            # partition pruning (bounds=) must use the recorded extents of the requested geometry column
            pruned = lib(B + ['read_parquet_dask-bounds'], lambda: read_parquet_dask(path, geometry=g, bounds=tuple(box)).compute())
            if set(exp) - set(pruned['id']):
                raise Failure(B + ['bounds-pruning-by-wrong-column', 'active=' + g], f'rows {sorted(set(exp) - set(pruned["id"]))} intersect {box} but their partitions were pruned')
            if len(pruned) and pruned.geometry.name != g:
                raise Failure(B + ['active-geometry-wrong', 'after-bounds'], f'{pruned.geometry.name} expected {g}')
        elif op == 'sjoin':
            a = mdl['active']
            if n == 0:
                return
            if a == 'pts':
                shapes = model.build_array('polygon', [_rect(REGION['pts'] - 5, -5, 40, 40), _rect(REGION['polys'] - 5, -5, 40, 40)], 'float64')
                right = sp.GeoDataFrame({'tag': ['P', 'Q'], 'shape': shapes})
                res = lib(B, sp.sjoin, df, right, how='inner')
                exp = sorted(rid for rid in mdl['ids'] if self.el('pts', rid) is not None)
                if sorted(res['id']) != exp or set(res['tag']) - {'P'}:
                    raise Failure(B + ['wrong-column-joined', 'left'], f'ids={sorted(res["id"])} tags={list(res["tag"])} expected ids {exp} all tag P')
            else:
                # frame on the right: probe points in each region; only those inside the ACTIVE column's shapes may match
                probes = []
                for g in GEOMS:
                    for rid in mdl['ids']:
                        e = self.el(g, rid)
                        if e is None:
                            continue
                        if g == 'polys':
                            r = e[0]
                            probes.append([(r[0] + r[2]) / 2, (r[1] + r[5]) / 2])
                        elif g == 'lines':
                            probes.append([e[0], e[1]])
                        else:
                            probes.append(list(e))
                if not probes:
                    return
                left = sp.GeoDataFrame({'pid': list(range(len(probes))), 'p': model.build_array('point', probes, 'float64')})
                res = lib(B, sp.sjoin, left, df, how='inner')
                exp = []
                for i, p in enumerate(probes):
                    for rid in mdl['ids']:
                        r = og.point_vs_shape(p[0], p[1], KIND[a], self.el(a, rid))
                        if r == 'on':
                            r = None
                        if r:
                            exp.append((i, rid))
                got = sorted(zip(res['pid'], res['id']))
                amb = {(i, rid) for i, p in enumerate(probes) for rid in mdl['ids'] if og.point_vs_shape(p[0], p[1], KIND[a], self.el(a, rid)) == 'on'}
                if sorted(set(got) - amb) != sorted(set(exp) - amb):
                    raise Failure(B + ['wrong-column-joined', 'right', 'active=' + a], f'pairs={got} expected {sorted(exp)}')
        elif op == 'pack_partitions':
            import dask.dataframe as dd
            a = mdl['active']
            if n < 2:
                return
            ddf = dd.from_pandas(df, npartitions=2, sort=False)
            try:
                others = [g for g in GEOMS if g in mdl['cols'] and g != a]
                if s.get('prepack') and others:
                    # a history: the frame was packed along another geometry column before the active one was selected
                    g0 = others[s['prepack'] % len(others)]
                    ddf = ddf.set_geometry(g0).pack_partitions(npartitions=2, p=s.get('p', 6)).set_geometry(a)
                    self._labels.add('pack-after-pack-on-other-column')
                packed = ddf.pack_partitions(npartitions=2, p=s.get('p', 6)).compute()
            except Exception:  # noqa: BLE001  - Dask cannot split degenerate distance sets: nothing claimed (C09)
                self._labels.add('pack-raised')
                return
            ref = df[a].hilbert_distance(total_bounds=df[a].total_bounds, p=s.get('p', 6))
            want = sorted(zip([int(v) for v in ref.values], mdl['ids']))
            got = sorted(zip([int(v) for v in packed.index], list(packed['id'])))
            if got != want:
                raise Failure(B + ['distance-of-wrong-column', 'active=' + a], f'{got} expected {want}')
        else:
            raise RuntimeError(f'unknown op {op}')


def _sizes(n, raw):
    cuts = sorted(v % (n + 1) for v in raw)
    edges = [0] + cuts + [n]
    return [b - a for a, b in zip(edges[:-1], edges[1:])]


def evaluate(case):
    it = Interp()
    try:
        for s in case['steps']:
            it.apply(s)
        return outcome(labels=it.labels(), nontrivial=it.nontrivial())
    except Failure as f:
        return outcome(failures=[(f.bucket, f.detail)], labels=it.labels(), nontrivial=True)
    finally:
        it.close()


# ----------------------------------------------------------------------------- strategies
@st.composite
def _header(draw):
    n = draw(st.integers(3, 8))
    rows = []
    c = st.integers(0, 20)
    for _ in range(n):
        pt = None if draw(st.integers(0, 9)) == 0 else [draw(c), draw(c)]
        poly = None if draw(st.integers(0, 9)) == 0 else [draw(c), draw(c), draw(st.integers(1, 4)), draw(st.integers(1, 4))]
        line = None if draw(st.integers(0, 9)) == 0 else [draw(c), draw(c), draw(c), draw(c)]
        rows.append({'pt': pt, 'poly': poly, 'line': line})
    order = draw(st.permutations(GEOMS))
    active = draw(st.sampled_from(order[1:]))
    sub = st.sampled_from(['float64', 'float64', 'float32', 'int32'])
    return {'op': 'init', 'rows': rows, 'order': list(order), 'active': active,
            'subtypes': {g: draw(sub) for g in GEOMS},
            'index': draw(st.sampled_from(['default', 'strings', 'nonunique', 'reversed'])),
            'index_name': draw(st.sampled_from([None, None, 'ix']))}


@st.composite
def _step(draw):
    op = draw(st.sampled_from(['iloc_slice', 'iloc_list', 'loc_mask', 'bool_getitem', 'head', 'tail', 'sort_values', 'sort_index',
                               'copy', 'pickle', 'reconstruct', 'col_subset', 'col_subset_nogeom', 'set_geometry', 'set_geometry', 'setgeom_same_then_inplace', 'dask_set_geometry', 'dask_set_geometry', 'cx', 'cx', 'cx',
                               'build_sindex', 'concat', 'concat', 'dask_roundtrip', 'dask_roundtrip', 'parquet_dask', 'sjoin', 'pack_partitions']))
    s = {'op': op, 'src': draw(st.integers(0, 3))}
    small = st.integers(0, 9)
    if op == 'iloc_slice':
        s.update(a=draw(small), b=draw(small))
    elif op == 'iloc_list':
        s.update(rows=draw(st.lists(st.integers(0, 20), max_size=6)))
    elif op in ('loc_mask', 'bool_getitem'):
        s.update(bits=draw(st.lists(st.booleans(), min_size=1, max_size=6)))
    elif op in ('head', 'tail'):
        s.update(k=draw(small))
    elif op == 'sort_values':
        s.update(by=draw(st.sampled_from(['id', 'w'])), asc=draw(st.booleans()))
    elif op == 'sort_index':
        s.update(asc=draw(st.booleans()))
    elif op == 'copy':
        s.update(deep=draw(st.booleans()))
    elif op == 'col_subset':
        s.update(extra=draw(st.lists(st.sampled_from(['w'] + GEOMS), max_size=3, unique=True)))
    elif op == 'set_geometry':
        s.update(which=draw(small))
    elif op == 'cx':
        s.update(region=draw(st.sampled_from(GEOMS)), dx0=draw(st.integers(0, 12)), dy0=draw(st.integers(0, 12)),
                 dx1=draw(st.integers(0, 12)), dy1=draw(st.integers(0, 12)), indexed=draw(st.booleans()), page_size=draw(st.sampled_from([1, 2, 512])))
    elif op == 'build_sindex':
        s.update(page_size=draw(st.sampled_from([1, 2, 512])))
    elif op == 'concat':
        s.update(other=draw(st.integers(0, 3)))
    elif op == 'dask_roundtrip':
        s.update(npartitions=draw(small), region=draw(st.sampled_from(GEOMS)),
                 sizes=draw(st.one_of(st.none(), st.lists(st.integers(0, 20), min_size=1, max_size=3))))
    elif op in ('parquet_dask', 'dask_set_geometry'):
        s.update(which=draw(small), npartitions=draw(small), in_memory=draw(st.booleans()))
    elif op == 'setgeom_same_then_inplace':
        s.update(which=draw(small))
    elif op == 'pack_partitions':
        s.update(p=draw(st.integers(2, 10)), prepack=draw(st.sampled_from([0, 0, 1, 2])))
    return s


def machines(tier, res, seed):
    import vpbt.checks.c20 as me
    return [make_machine(me, res, _header(), _step(), Interp)]
