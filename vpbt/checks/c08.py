"""C08 - a geometry's Hilbert distance is the curve position of its bbox centre."""
import copy
import math

import numpy as np
from hypothesis import strategies as st

from .. import gen, model, oracle_hilbert as oh
from ..harness import lib, outcome

PROPERTY = 'C08'
LEVEL = 'exploration'
RULE = ('E1 (Hypothesis). Exact part: elements of all 7 kinds are generated in *cell units* of a 2^p x 2^p grid (lattice values '
        'mapped so that bbox centres fall on cell borders, on the upper edge 2^p, outside the grid and inside), then embedded '
        'as origin + cell_units * 2^k per axis, so the library\'s scaling factor is a power of two and its arithmetic exact; '
        'reference = clamp(floor(centre in cell units), 0, 2^p-1) fed to the independent reference curve (vpbt/oracle_hilbert.py). '
        'Metamorphic part (also inexact floats): value in [0,4^p); hd(arr)[sel] == hd(arr[sel]) for selections/permutations and '
        're-backed arrays under the same explicit bounds; None == explicit arr.total_bounds; list / tuple / float ndarray / int '
        'ndarray / int list / mixed list accepted alike and left unmodified; degenerate extents succeed and equal the widened '
        'extent; GeoSeries.hilbert_distance == array method on the same index. p in 1..31. Non-trivial: a centre on a cell '
        'border / upper edge / outside the grid, a degenerate extent, or a non-list total_bounds. distinct = distinct cases.')
RULE += (' Added after the seeded rounds: containers derived (take with fill, iloc, mask, head, reindex) from a parent whose bounds / total bounds / distances were already computed equal fresh containers, also for the default total_bounds.')
ASSUMPTIONS = ['C07 (the curve itself) is checked separately; here the reference curve is the n=2 construction of oracle_hilbert',
               'distance of a missing/empty element is only required to be in range']
BUDGET = {'quick': {'shards': 16, 'examples': 4800, 'min_evaluations': 2000},
          'thorough': {'shards': 16, 'examples': 96000, 'min_evaluations': 40000}}

FORMS = ['list', 'tuple', 'ndarray', 'int-ndarray', 'int-list', 'mixed-list']


def _as_form(tb, form):
    if form == 'list':
        return [float(v) for v in tb]
    if form == 'tuple':
        return tuple(float(v) for v in tb)
    if form == 'ndarray':
        return np.array(tb, dtype=np.float64)
    if form == 'int-ndarray':
        return np.array(tb, dtype=np.int64)
    if form == 'int-list':
        return [int(v) for v in tb]
    if form == 'mixed-list':
        return [int(tb[0]), float(tb[1]), float(tb[2]), int(tb[3])]
    raise ValueError(form)


def _snapshot(obj):
    return (type(obj).__name__, np.asarray(obj).tolist(), str(getattr(obj, 'dtype', '')))


def _ref_cells(kind, els_units, p):
    """reference distance per element from coordinates in cell units; None for inert elements"""
    out = []
    side = 1 << p
    for e in els_units:
        if model.is_inert(kind, e):
            out.append(None)
            continue
        b = model.ref_bounds_flat(model.flat_coords(kind, e))
        if any(v != v for v in b):
            out.append(None)
            continue
        cx, cy = (b[0] + b[2]) / 2, (b[1] + b[3]) / 2
        ix = min(max(math.floor(cx), 0), side - 1)
        iy = min(max(math.floor(cy), 0), side - 1)
        out.append((oh.xy2d(p, ix, iy), cx, cy))
    return out


def evaluate(case):
    import spatialpandas as sp
    kind, subtype, p = case['kind'], case['subtype'], case['p']
    els = case['elements']
    B = ['C08', kind]
    fails = []
    labels = [kind, subtype, f'p{p}' if p <= 4 else ('p5-16' if p <= 16 else 'p17-31')]
    nt = False
    arr = lib(B + ['construct'], model.reback, kind, els, subtype, case.get('reback', 'plain'))
    n = len(els)
    tb = case.get('total_bounds')
    form = case.get('form', 'list')
    top = 1 << (2 * p)

    def hd(a, bounds_obj):
        return np.asarray(lib(B + ['hilbert_distance', 'form:' + (form if bounds_obj is not None else 'none')],
                              a.hilbert_distance, bounds_obj, p))

    if tb is not None:
        obj = _as_form(tb, form)
        snap = _snapshot(obj)
        d = hd(arr, obj)
        if _snapshot(obj) != snap:
            fails.append((B + ['total_bounds-modified', form], f'{snap} -> {_snapshot(obj)}'))
        if form != 'list':
            nt = True
            labels.append('form:' + form)
        if tb[0] == tb[2] or tb[1] == tb[3]:
            nt = True
            labels.append('degenerate-extent')
            wide = [tb[0], tb[1], tb[2] + (1.0 if tb[0] == tb[2] else 0), tb[3] + (1.0 if tb[1] == tb[3] else 0)]
            d2 = np.asarray(lib(B + ['hilbert_distance'], arr.hilbert_distance, [float(v) for v in wide], p))
            if d.tolist() != d2.tolist():
                fails.append((B + ['degenerate-extent', 'not-widened-by-one'], f'tb={tb} {d.tolist()} vs widened {d2.tolist()}'))
        base_obj = lambda: _as_form(tb, 'list')  # noqa: E731
    else:
        if n == 0 or all(model.is_inert(kind, e) for e in model.to_canonical(arr)):
            return outcome(rejected=True)
        d = hd(arr, None)
        tbe = [float(v) for v in arr.total_bounds]
        if any(v != v for v in tbe):
            return outcome(rejected=True)
        d_exp = np.asarray(lib(B + ['hilbert_distance'], arr.hilbert_distance, list(tbe), p))
        if d.tolist() != d_exp.tolist():
            fails.append((B + ['default-bounds'], f'None gives {d.tolist()} explicit total_bounds {tbe} gives {d_exp.tolist()}'))
        labels.append('default-bounds')
        tb = tbe
        base_obj = lambda: list(tbe)  # noqa: E731
    if d.shape != (n,):
        fails.append((B + ['shape'], f'{d.shape} n={n}'))
        return outcome(failures=fails, labels=labels, nontrivial=True)
    if n and (d.min() < 0 or d.max() >= top):
        fails.append((B + ['range'], f'p={p} distances={d.tolist()}'))
    # exact reference
    if case.get('units') is not None:
        ref = _ref_cells(kind, case['units'], p)
        side = 1 << p
        for i, r in enumerate(ref):
            if r is None:
                continue
            rd, cx, cy = r
            if cx == int(cx) or cy == int(cy):
                nt = True
                labels.append('centre-on-cell-border')
            if cx == side or cy == side:
                labels.append('centre-on-upper-edge')
            if cx < 0 or cy < 0 or cx > side or cy > side:
                nt = True
                labels.append('centre-outside')
            if int(d[i]) != rd:
                what = 'upper-edge' if (cx >= side or cy >= side) else ('below' if (cx < 0 or cy < 0) else 'inside')
                fails.append((B + ['reference', what], f'el(units)={case["units"][i]} centre=({cx},{cy}) p={p} tb={tb} got={int(d[i])} expected={rd}'))
                break
        labels.append('exact-part')
    # selection / permutation independence
    sel = case.get('select')
    if sel is not None and n:
        idx = [i % n for i in sel]
        sub = lib(B + ['take'], arr.take, np.array(idx, dtype=np.int64))
        ds = np.asarray(lib(B + ['hilbert_distance'], sub.hilbert_distance, base_obj(), p))
        if ds.tolist() != [int(d[i]) for i in idx]:
            fails.append((B + ['selection-dependence'], f'sel={idx} whole={d.tolist()} sub={ds.tolist()} tb={tb}'))
        labels.append('selection')
    if case.get('reback', 'plain') != 'plain':
        plain = model.build_array(kind, els, subtype)
        dp = np.asarray(lib(B + ['hilbert_distance'], plain.hilbert_distance, base_obj(), p))
        if dp.tolist() != d.tolist():
            fails.append((B + ['backing-dependence'], f'reback={case["reback"]} {d.tolist()} vs plain {dp.tolist()}'))
    # forms agree with the list form
    if form != 'list' and case.get('total_bounds') is not None:
        dl = np.asarray(lib(B + ['hilbert_distance', 'form:list'], arr.hilbert_distance, [float(v) for v in case['total_bounds']], p))
        if dl.tolist() != d.tolist():
            fails.append((B + ['form-dependence', form], f'{form}: {d.tolist()} list: {dl.tolist()}'))
    # histories: containers derived from a parent whose bounds, total bounds and distances have already been computed
    # hold the distances of a fresh container with the same elements (own coordinates and (total_bounds, p) only)
    dv = case.get('derive')
    if dv is not None and n:
        ser0 = sp.GeoSeries(arr, index=list(range(n)))
        lib(B + ['warm'], lambda: (arr.bounds, ser0.bounds, ser0.total_bounds))
        if not any(v != v for v in arr.total_bounds):
            lib(B + ['warm'], lambda: (ser0.hilbert_distance(p=p), arr.hilbert_distance(p=p)))
        tk = [(-1 if i < 0 else i % n) for i in dv['take']]
        if tk:
            sub = lib(B + ['take-fill'], lambda: arr.take(np.array(tk, dtype=np.int64), allow_fill=True))
            fresh = model.build_array(kind, [None if i < 0 else els[i] for i in tk], subtype)
            a1 = np.asarray(lib(B + ['hilbert_distance'], sub.hilbert_distance, base_obj(), p))
            a2 = np.asarray(lib(B + ['hilbert_distance'], fresh.hilbert_distance, base_obj(), p))
            if a1.tolist() != a2.tolist():
                fails.append((B + ['history-dependence', 'take-with-fill'], f'take({tk}, allow_fill) of a parent with computed bounds: {a1.tolist()} vs fresh array {a2.tolist()} tb={tb}'))
            labels.append('derived:take-with-fill' + ('(-1)' if -1 in tk else ''))
        a, b = sorted(i % (n + 1) for i in dv['slice'])
        mask = [bool((dv['mask'] >> i) & 1) for i in range(n)]
        derived = [('iloc', lambda: ser0.iloc[a:b], list(range(a, b))),
                   ('mask', lambda: ser0[np.array(mask)], [i for i in range(n) if mask[i]]),
                   ('head', lambda: ser0.head(b), list(range(min(b, n)))),
                   ('reindex', lambda: ser0.reindex([(i if i >= 0 else n + 5) for i in tk]), tk)]
        for name, mk, pos in derived:
            sub_els = [None if i < 0 else els[i] for i in pos]
            fresh = model.build_array(kind, sub_els, subtype)
            if not len(sub_els) or all(model.is_inert(kind, e) for e in model.to_canonical(fresh)) or any(v != v for v in fresh.total_bounds):
                continue
            der = lib(B + ['derive', name], mk)
            a1 = np.asarray(lib(B + ['GeoSeries.hilbert_distance', 'default-bounds'], lambda: der.hilbert_distance(p=p))).tolist()
            a2 = np.asarray(lib(B + ['GeoSeries.hilbert_distance', 'default-bounds'], lambda: sp.GeoSeries(fresh).hilbert_distance(p=p))).tolist()
            if a1 != a2:
                fails.append((B + ['history-dependence', 'default-bounds', name], f'{name} {pos} of a series whose total_bounds were computed: {a1} vs fresh series {a2}'))
            tb1 = tuple(float(v) for v in lib(B + ['total_bounds'], lambda: der.total_bounds))
            if not model.same_row(tb1, tuple(float(v) for v in fresh.total_bounds)):
                fails.append((B + ['history-dependence', 'total_bounds', name], f'{name} {pos}: total_bounds {tb1} vs fresh {tuple(fresh.total_bounds)}'))
            labels.append('derived:' + name)
            if len(sub_els) < n:
                nt = True
    idx = [f'k{i}' for i in range(n)][::-1]
    ser = lib(B + ['GeoSeries.hilbert_distance'], lambda: sp.GeoSeries(arr, index=idx).hilbert_distance(total_bounds=base_obj(), p=p))
    if list(ser.index) != idx or ser.values.tolist() != d.tolist():
        fails.append((B + ['geoseries'], f'{ser.values.tolist()} vs {d.tolist()}'))
    return outcome(failures=fails, labels=labels, nontrivial=nt)


# ----------------------------------------------------------------------------- strategy
def _map_units(kind, el, s, offx, offy):
    def mp(flat):
        return [v * s + (offx if i % 2 == 0 else offy) for i, v in enumerate(flat)]
    if el is None:
        return None
    d = model.NEST[kind]
    if d <= 1:
        if kind == 'point' and el and el[0] != el[0]:
            return el
        return mp(el)
    if d == 2:
        return [mp(x) for x in el]
    return [[mp(r) for r in poly] for poly in el]


def _embed(kind, el, ox, oy, cx, cy):
    def mp(flat):
        return [(ox + v * cx) if i % 2 == 0 else (oy + v * cy) for i, v in enumerate(flat)]
    if el is None:
        return None
    d = model.NEST[kind]
    if d <= 1:
        if kind == 'point' and el and el[0] != el[0]:
            return el
        return mp(el)
    if d == 2:
        return [mp(x) for x in el]
    return [[mp(r) for r in poly] for poly in el]


@st.composite
def _exact_case(draw):
    kind = draw(st.sampled_from(model.KINDS))
    p = draw(st.one_of(st.integers(1, 4), st.integers(1, 31)))
    side = 1 << p
    n = draw(st.integers(1, 6))
    # lattice element -> cell units
    j = draw(st.integers(-1, max(-1, p - 3)))
    s = 2.0 ** j
    t = draw(st.integers(0, 6))
    offs = [0.0, -s, side - s * t, side / 2 - s * t] if p > 1 else [0.0, side - s * t]
    offx, offy = draw(st.sampled_from(offs)), draw(st.sampled_from(offs))
    units = []
    for _ in range(n):
        r = draw(st.integers(0, 9))
        if r == 0:
            units.append(None)
        elif r == 1:
            units.append([float('nan'), float('nan')] if kind == 'point' else [])
        else:
            e = gen.no_leafless(draw(gen.any_element(kind, 'int64', False, False)))
            units.append(_map_units(kind, e, s, offx, offy))
    kx, ky = draw(st.integers(-2, 8)), draw(st.integers(-2, 8))
    # origins far from zero relative to the extent (a tolerance-based "is the extent zero?" test would misfire there)
    big = st.sampled_from([0, 2 ** 20, -2 ** 20, 2 ** 30, 2 ** 26 + 3])
    ox = draw(st.integers(-1000, 1000)) + draw(big)
    oy = draw(st.integers(-1000, 1000)) + draw(big)
    cx, cy = 2.0 ** kx, 2.0 ** ky
    els = [_embed(kind, e, ox, oy, cx, cy) for e in units]
    tb = [float(ox), float(oy), ox + side * cx, oy + side * cy]
    allint = all(float(v) == int(v) for e in els if e is not None for v in model.flat_coords(kind, e) if v == v)
    has_nan = any(v != v for e in els if e is not None for v in model.flat_coords(kind, e))
    subtype = draw(st.sampled_from(['float64', 'int64'])) if (allint and not has_nan) else 'float64'
    forms = FORMS if all(float(v) == int(v) for v in tb) else ['list', 'tuple', 'ndarray']
    return {'kind': kind, 'subtype': subtype, 'p': p, 'elements': els, 'units': units, 'total_bounds': tb,
            'form': draw(st.sampled_from(forms)), 'reback': draw(st.sampled_from(model.REBACKINGS)),
            'select': draw(st.one_of(st.none(), st.lists(st.integers(0, 20), max_size=6))),
            'derive': draw(st.one_of(st.none(), st.fixed_dictionaries({'take': st.lists(st.integers(-1, 20), max_size=6), 'slice': st.tuples(st.integers(0, 20), st.integers(0, 20)).map(list), 'mask': st.integers(0, 2 ** 20 - 1)})))}


@st.composite
def _free_case(draw):
    case = draw(gen.any_array_case(nonfinite=False, wide=draw(st.booleans()), leafless=False))
    p = draw(st.integers(1, 31))
    mode = draw(st.sampled_from(['none', 'explicit', 'explicit', 'degenerate-x', 'degenerate-y', 'degenerate-xy', 'not-containing']))
    tb = None
    if mode != 'none':
        fl = [v for e in case['elements'] if e is not None for v in model.flat_coords(case['kind'], e) if v == v]
        lo = min(fl) if fl else 0
        hi = max(fl) if fl else 1
        a, b = float(math.floor(lo)) - draw(st.integers(0, 3)), float(math.ceil(hi)) + draw(st.integers(1, 4))
        tb = [a, a, b, b]
        if mode == 'degenerate-x':
            tb[2] = tb[0] = float(draw(st.integers(-3, 5)))
        elif mode == 'degenerate-y':
            tb[3] = tb[1] = float(draw(st.integers(-3, 5)))
        elif mode == 'degenerate-xy':
            tb = [float(draw(st.integers(-3, 5)))] * 2
            tb = tb + tb
        elif mode == 'not-containing':
            tb = [a + 1.5, a + 2.5, a + 2.5 + draw(st.integers(1, 3)), a + 3.5 + draw(st.integers(1, 3))]
        # floats wider than 2^53 lose the +1 widening; out of the stated domain
        tb = [max(-2.0 ** 40, min(2.0 ** 40, v)) for v in tb]
    case.update({'p': p, 'total_bounds': tb, 'units': None,
                 'form': draw(st.sampled_from(FORMS if tb and all(float(v) == int(v) for v in tb) else ['list', 'tuple', 'ndarray'])),
                 'select': draw(st.one_of(st.none(), st.lists(st.integers(0, 20), max_size=6))),
                 'derive': draw(st.one_of(st.none(), st.fixed_dictionaries({'take': st.lists(st.integers(-1, 20), max_size=6), 'slice': st.tuples(st.integers(0, 20), st.integers(0, 20)).map(list), 'mask': st.integers(0, 2 ** 20 - 1)})))})
    return case


def strategy(tier):
    return st.one_of(_exact_case(), _free_case())
