"""C15 - oriented() normalises ring direction without changing the shape."""
import itertools

import numpy as np
from hypothesis import strategies as st

from .. import gen, model, oracle_geom as og
from ..harness import lib, new_result, outcome, safe_evaluate, add_outcome

PROPERTY = 'C15'
LEVEL = 'exploration'
RULE = ('E3: every direction pattern (2^rings) of every array of <=3 elements (quick: <=2 plus a seed-chosen eighth of the '
        'length-3 arrays) built from {missing, empty, polygons with 1..3 rings (shell + nested valid holes)} (polygon kind) / '
        '{missing, empty, multipolygons of 1..2 polygons with 1..2 rings} (multipolygon kind), every slice [a:b] of the array. '
        'E1 (Hypothesis): "any structure" arrays (degenerate / zero-area / empty rings, 0..4 rings, 0..3 parts), valid polygons '
        'with holes in random directions, missing elements, re-backed buffers, 5 subtypes; plus a sub-run of the same '
        'strategy in a fresh interpreter with NUMBA_BOUNDSCHECK=1 (out-of-bounds accesses become IndexError). Predicates: '
        'non-zero shells CCW / holes CW, every ring = input ring or its reverse (as closed cycles), same parts/rings/length, '
        'missing stays missing, idempotent, input unmodified, for valid inputs intersects_bounds over feature boxes and '
        'PointArray.intersects over lattice points unchanged and area >= 0 with unchanged magnitude. '
        'Non-trivial: at least one ring had to be reversed. distinct = enumerated (array,slice) pairs + distinct E1 cases.')
RULE += (' Added after the seeded rounds: whole float64 cases shrunk by an exact power of two (2^-1..2^-45); arrays whose front part was oriented before being concatenated with a raw part.')
ASSUMPTIONS = ['intersection invariance asserted only for inputs whose holes oppose their shell (the winding number legitimately changes otherwise)']
SCOPE = {'quick': {'max_len_exhaustive': 2, 'len3': '1/8 sample by seed'}, 'thorough': {'max_len_exhaustive': 3}}
EXHAUSTIVE = {'quick': True, 'thorough': True}
BUDGET = {'quick': {'shards': 14, 'examples': 2800, 'min_evaluations': 2000,
                    'sub_shards': [{'examples': 400, 'env': {'NUMBA_BOUNDSCHECK': '1'}}]},
          'thorough': {'shards': 14, 'examples': 56000, 'min_evaluations': 40000,
                       'sub_shards': [{'examples': 6000, 'env': {'NUMBA_BOUNDSCHECK': '1'}}, {'examples': 6000, 'env': {'NUMBA_BOUNDSCHECK': '1'}}]}}


def _polys(kind, el):
    """list of polygons (each a list of rings) of an element"""
    if el is None:
        return None
    return [el] if kind == 'polygon' else list(el)


def _cyc(ring):
    pts = list(zip(ring[0::2], ring[1::2]))
    if len(pts) >= 2 and pts[0] == pts[-1]:
        pts = pts[:-1]
    return pts


def _same_cycle(a, b):
    """b is a rotation of a (as closed cycles of vertices)"""
    if len(a) != len(b):
        return False
    if not a:
        return True
    n = len(a)
    return any(all(a[(i + k) % n] == b[i] for i in range(n)) for k in range(n))


def _valid_el(kind, el):
    try:
        ps = _polys(kind, el)
        if not ps:
            return False
        ip = [[og.IL(r) for r in p] for p in ps]
        for p in ip:
            if not p or not og.is_simple_ring(p[0]):
                return False
            # holes valid regardless of direction
            sh = 1 if og.area2(p[0]) > 0 else -1
            fixed = [p[0]] + [h if (og.area2(h) > 0) != (sh > 0) else og._rev(h) for h in p[1:]]
            if any(not og.is_simple_ring(h) for h in p[1:]) or not og.valid_polygon(fixed):
                return False
        return all(og.parts_compatible(ip[i], ip[j]) for i in range(len(ip)) for j in range(i + 1, len(ip)))
    except (ValueError, IndexError):
        return False


def _holes_oppose(kind, el):
    for p in _polys(kind, el):
        sh = og.area2(og.IL(p[0])) > 0
        for h in p[1:]:
            if (og.area2(og.IL(h)) > 0) == sh:
                return False
    return True


def evaluate(case):
    kind, subtype, els = case['kind'], case['subtype'], case['elements']
    B = ['C15', kind]
    fails = []
    k = case.get('scale_exp', 0)
    f = 2.0 ** -k

    def scaled(el):
        if not el or not k:
            return el
        polys = [el] if kind == 'polygon' else el
        o = [[[v * f for v in r] for r in poly] for poly in polys]
        return o[0] if kind == 'polygon' else o
    arr_u = lib(B + ['construct'], model.reback, kind, els, subtype, case.get('reback', 'plain'))
    # a power-of-two scaling is exact: the scaled array is the same shapes, only tiny (areas far below any absolute tolerance)
    arr = lib(B + ['construct'], model.reback, kind, [scaled(e) for e in els], subtype, case.get('reback', 'plain')) if k else arr_u
    sl = case.get('slice')
    if sl is not None:
        arr = arr[sl[0]:sl[1]]
        arr_u = arr_u[sl[0]:sl[1]]
    hist = case.get('history')
    if hist and len(arr):
        # a history: the front part of the array has been oriented already and is joined with a part that has not
        c = hist['cut'] % (len(arr) + 1)
        if hist['how'] == 'series':
            import pandas as pd
            import spatialpandas as sp
            mk = lambda a: lib(B + ['concat-after-oriented'], lambda: pd.concat(  # noqa: E731
                [sp.GeoSeries(lib(B + ['oriented'], a[:c].oriented)), sp.GeoSeries(a[c:])], ignore_index=True).array)
        elif hist['how'] == 'array-tail':
            mk = lambda a: lib(B + ['concat-after-oriented'], type(a)._concat_same_type, [a[:c], lib(B + ['oriented'], a[c:].oriented)])  # noqa: E731
        else:
            mk = lambda a: lib(B + ['concat-after-oriented'], type(a)._concat_same_type, [lib(B + ['oriented'], a[:c].oriented), a[c:]])  # noqa: E731
        arr = mk(arr)
        arr_u = mk(arr_u) if k else arr
    before = model.to_canonical(arr)
    before_u = model.to_canonical(arr_u) if k else before
    n = len(before)
    out = lib(B + ['oriented'], arr.oriented)
    after_in = model.to_canonical(arr)
    if after_in != before:
        fails.append((B + ['input-modified'], f'{before} -> {after_in}'))
    if type(out) is not type(arr):
        fails.append((B + ['type'], type(out).__name__))
    got = model.to_canonical(out)
    flipped = 0
    if len(got) != n:
        fails.append((B + ['length'], f'{len(got)} != {n}'))
    else:
        for i, (a, b) in enumerate(zip(before, got)):
            if a is None or b is None:
                if a is not b:
                    fails.append((B + ['missing', 'lost' if a is None else 'introduced'], f'i={i} in={a} out={b}'))
                continue
            pa_, pb_ = _polys(kind, a), _polys(kind, b)
            if len(pa_) != len(pb_) or any(len(x) != len(y) for x, y in zip(pa_, pb_)):
                fails.append((B + ['structure'], f'i={i} in={a} out={b}'))
                continue
            for x, y in zip(pa_, pb_):
                for k, (ra, rb) in enumerate(zip(x, y)):
                    ca, cb = _cyc(ra), _cyc(rb)
                    same = _same_cycle(ca, cb)
                    rev = _same_cycle(ca[::-1], cb)
                    if len(ra) != len(rb) or not (same or rev):
                        fails.append((B + ['ring-changed'], f'i={i} ring {k}: {ra} -> {rb}'))
                        continue
                    if not same:
                        flipped += 1
                    a2 = model.ring_area2(model.denorm(rb))
                    if a2 != 0 and ((a2 > 0) != (k == 0)):
                        fails.append((B + ['direction', 'shell-not-ccw' if k == 0 else 'hole-not-cw'], f'i={i} ring {k}: {ra} -> {rb} area2={a2}'))
    if not fails:
        twice = model.to_canonical(lib(B + ['oriented-twice'], out.oriented))
        if twice != got:
            fails.append((B + ['not-idempotent'], f'in={before} once={got} twice={twice}'))
    # valid inputs: intersections and |area| unchanged, area >= 0
    labels = [kind, subtype, 'reback:' + case.get('reback', 'plain')]
    valid_idx = [i for i, e in enumerate(before_u) if e is not None and model.has_leaf(e) and _valid_el(kind, e)]
    if valid_idx and not fails:
        labels.append('valid-elements')
        ar_in = np.asarray(arr.area)
        ar_out = np.asarray(lib(B + ['area'], lambda: out.area))
        for i in valid_idx:
            # magnitude is unchanged when the signed sum already is +-(sum |shell| - sum |holes|): holes oppose their
            # shell and all shells of a multipolygon run the same way (otherwise parts cancel in the input)
            uniform = _holes_oppose(kind, before_u[i]) and len({og.area2(og.IL(p[0])) > 0 for p in _polys(kind, before_u[i])}) == 1
            if ar_out[i] < 0 or (uniform and abs(ar_out[i]) != abs(ar_in[i])):
                fails.append((B + ['area'], f'i={i} el={before[i]} area {ar_in[i]} -> {ar_out[i]}'))
            exp = sum(abs(model.ring_area2(p[0])) - sum(abs(model.ring_area2(h)) for h in p[1:]) for p in _polys(kind, before[i])) / 2
            if ar_out[i] != exp:
                fails.append((B + ['area', 'not-shell-minus-holes'], f'i={i} el={before[i]} oriented area={ar_out[i]} expected={exp}'))
        opp = [i for i in valid_idx if _holes_oppose(kind, before_u[i])]
        if opp:
            labels.append('intersection-invariance')
            for box in case.get('boxes', []):
                box = [v * f for v in box]
                r0 = np.asarray(arr.intersects_bounds(tuple(box)))
                r1 = np.asarray(lib(B + ['intersects_bounds'], out.intersects_bounds, tuple(box)))
                for i in opp:
                    if r0[i] != r1[i]:
                        fails.append((B + ['intersects_bounds-changed'], f'el={before[i]} box={box} {r0[i]} -> {r1[i]}'))
            g = case.get('grid')
            if g:
                from .c02 import grid_points
                pts = [[x * f, y * f] for x, y in grid_points(g)]
                parr = model.build_array('point', pts, 'float64')
                for i in opp[:2]:
                    s0, s1 = arr[i], out[i]
                    m0 = np.asarray(parr.intersects(s0))
                    m1 = np.asarray(lib(B + ['intersects'], parr.intersects, s1))
                    if not np.array_equal(m0, m1):
                        j = int(np.nonzero(m0 != m1)[0][0])
                        fails.append((B + ['point-intersects-changed'], f'el={before[i]} point={pts[j]} {m0[j]} -> {m1[j]}'))
    if any(e is None for e in before):
        labels.append('has-missing')
    if sl is not None:
        labels.append('sliced')
    if k:
        labels.append('tiny(2^-%d)' % (10 * (k // 10)))
    if hist:
        labels.append('history:' + hist['how'])
    if flipped:
        labels.append('flipped')
    labels.extend(case.get('labels', []))
    return outcome(failures=fails, labels=labels, nontrivial=flipped > 0)


# ----------------------------------------------------------------------------- E1
@st.composite
def _case(draw):
    kind = draw(st.sampled_from(['polygon', 'multipolygon']))
    subtype = draw(gen.subtypes)
    n = draw(st.one_of(st.integers(0, 3), st.integers(0, 6)))
    els = []
    valid_src = None
    for _ in range(n):
        r = draw(st.integers(0, 9))
        if r == 0:
            els.append(None)
        elif r == 1:
            els.append([])
        elif r <= 5:
            if kind == 'polygon':
                rings, _ = draw(gen.valid_polygons())
                polys = [rings]
            else:
                polys, _ = draw(gen.valid_multipolygons())
            # random direction per ring (holes may or may not oppose their shell)
            mode = draw(st.sampled_from(['asis', 'asis', 'random', 'allccw', 'allcw']))
            out = []
            for rings in polys:
                rr = []
                for ring in rings:
                    flip = {'asis': False, 'random': draw(st.booleans()), 'allccw': og.area2(ring) < 0, 'allcw': og.area2(ring) > 0}[mode]
                    rr.append(og._rev(ring) if flip else ring)
                out.append(rr)
            el = out[0] if kind == 'polygon' else out
            els.append(el)
            valid_src = el
        else:
            els.append(draw(gen.any_element(kind, subtype, False, False)))
    if subtype == 'int16' and els and draw(st.booleans()):
        # stretch the whole array to the edge of the int16 range: every coordinate still fits, but coordinate DIFFERENCES
        # exceed 2^15 (harmless for scalar kernels, which numba promotes to int64; fatal for narrow array arithmetic)
        mx = max([abs(v) for e in els if e for v in model.flat_coords(kind, e)] or [1])
        m = max(1, 32767 // max(1, mx))
        stretch = draw(st.sampled_from(['xy', 'x', 'y']))

        def big(el):
            if not el:
                return el
            polys = [el] if kind == 'polygon' else el
            out = [[[v * (m if (i % 2 == 0 and 'x' in stretch) or (i % 2 == 1 and 'y' in stretch) else 1) for i, v in enumerate(r)] for r in poly] for poly in polys]
            return out[0] if kind == 'polygon' else out
        els = [big(e) for e in els]
        if valid_src is not None:
            valid_src = big(valid_src)
    boxes, grid = [], None
    if valid_src is not None:
        fl = model.flat_coords(kind, valid_src)
        boxes = [draw(gen.feature_boxes(fl, 1)) for _ in range(2)]
        x0, x1, y0, y1 = min(fl[0::2]), max(fl[0::2]), min(fl[1::2]), max(fl[1::2])
        grid = {'x0': x0 - 1, 'y0': y0 - 1, 'step': 0.5, 'nx': min(40, int((x1 - x0) * 2) + 5), 'ny': min(40, int((y1 - y0) * 2) + 5)}
    sl = None
    if n and draw(st.booleans()):
        a = draw(st.integers(0, n))
        sl = [a, draw(st.integers(a, n))]
    case = {'kind': kind, 'subtype': subtype, 'elements': els, 'reback': draw(st.sampled_from(model.REBACKINGS)),
            'slice': sl, 'boxes': boxes, 'grid': grid}
    mags = [abs(v) for e in els if e for v in model.flat_coords(kind, e) if v != 0]
    if subtype == 'float64' and all(2.0 ** -8 <= m <= 2.0 ** 30 for m in mags) and draw(st.integers(0, 3)) == 0:
        case['scale_exp'] = draw(st.integers(1, 45))
    if n and draw(st.integers(0, 2)) == 0:
        case['history'] = {'how': draw(st.sampled_from(['array', 'array-tail', 'series'])), 'cut': draw(st.integers(0, 8))}
    return case


def strategy(tier):
    return _case()


# ----------------------------------------------------------------------------- E3
def _sq(x0, y0, s):
    return [x0, y0, x0 + s, y0, x0 + s, y0 + s, x0, y0 + s, x0, y0]   # CCW


def element_types(kind):
    """all direction patterns of the small structures"""
    shell = _sq(0, 0, 8)
    holes = [_sq(1, 1, 2), _sq(4, 4, 2)]
    types = [None, []]

    def patterns(rings):
        for bits in itertools.product([False, True], repeat=len(rings)):
            yield [og._rev(r) if b else r for r, b in zip(rings, bits)]
    if kind == 'polygon':
        for nr in (1, 2, 3):
            types.extend(patterns([shell] + holes[:nr - 1]))
    else:
        other = _sq(10, 0, 4)
        oh = _sq(11, 1, 1)
        for nr in (1, 2):
            for p in patterns([shell] + holes[:nr - 1]):
                types.append([p])
        for p in patterns([shell, other]):
            types.append([[p[0]], [p[1]]])
        for p in patterns([shell, holes[0], other]):
            types.append([[p[0], p[1]], [p[2]]])
        for p in patterns([shell, other, oh]):
            types.append([[p[0]], [p[1], p[2]]])
    return types


def enum_tasks(tier, seed):
    tasks = []
    for kind in ('polygon', 'multipolygon'):
        for L in (1, 2):
            for c in range(4):
                tasks.append({'kind': kind, 'len': L, 'chunk': c, 'of': 4})
        of = 32 if tier == 'thorough' else 8 * 8
        chunks = range(of) if tier == 'thorough' else [(seed % 8) * 8 + c for c in range(8)]
        for c in chunks:
            tasks.append({'kind': kind, 'len': 3, 'chunk': c, 'of': of})
    return tasks


def run_enum_task(task):
    import vpbt.checks.c15 as me
    res = new_result()
    kind = task['kind']
    types = element_types(kind)
    arrays = list(itertools.product(range(len(types)), repeat=task['len']))[task['chunk']::task['of']]
    subs = ['float64', 'int32', 'float32', 'int16', 'int64']
    for k, combo in enumerate(arrays):
        els = [types[i] for i in combo]
        n = len(els)
        for a in range(n + 1):
            for b in range(a, n + 1):
                if (a, b) != (0, n) and b - a == 0 and a not in (0, n):
                    continue
                case = {'kind': kind, 'subtype': subs[(k + a + b) % len(subs)], 'elements': els, 'reback': 'plain',
                        'slice': None if (a, b) == (0, n) else [a, b],
                        'boxes': [[3, 3, 5, 5], [1.5, 1.5, 2.5, 2.5], [7, 7, 9, 9]] if k % 7 == 0 else [],
                        'grid': {'x0': -1, 'y0': -1, 'step': 0.5, 'nx': 21, 'ny': 21} if k % 29 == 0 else None}
                add_outcome(res, case, safe_evaluate(me, case), keep_digest=False)
    return res
