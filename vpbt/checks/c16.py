"""C16 - derived arrays hold the same elements and behave like fresh ones (stateful, model-based)."""
import os
import pickle
import shutil
import tempfile

import numpy as np
from hypothesis import strategies as st

from .. import gen, model
from ..harness import Failure, lib, make_machine, outcome

PROPERTY = 'C16'
LEVEL = 'exploration'
RULE = ('E2 (Hypothesis rule-based state machine, history replayable from its step log): header = (kind of 7, subtype of 5, '
        'query boxes, p); steps = new / getitem_int / slice(start,stop,step any sign) / mask / take(allow_fill) / list index / '
        'concat(2..3) / copy / pickle / iterate+_from_sequence / GeoSeries.iloc / GeoSeries.loc(mask) / GeoDataFrame.iloc / '
        'parquet round trip / invalid requests (out-of-range int, wrong-length mask, out-of-bounds take, take from empty, '
        'allow_fill with index < -1). Model: Python list of elements. After every step the new array must hold exactly the '
        'model elements (decoded through pyarrow only), len/isna agree, and bounds, total_bounds(_x/_y), length, area, '
        'intersects_bounds, hilbert_distance(explicit bounds), sindex queries, PointArray.intersects(shape) / '
        'points.intersects(element scalar) equal the same quantities of a FRESH array built from the model by the plain '
        'constructor. Non-trivial: history with >= 2 derivation steps that ends with a live array whose backing offset is '
        'non-zero (arr.data.offset, used for labelling only). distinct = distinct histories.')
RULE += (' Added after the seeded rounds: histories in which every array builds and is queried through its own spatial index (sindex.intersects, cx).')
ASSUMPTIONS = ['pyarrow to_pylist decodes stored elements correctly', 'errors expected for invalid requests are those documented in ExtensionArray.take / __getitem__']
BUDGET = {'quick': {'stateful_shards': 16, 'stateful_examples': 1600, 'steps': 10, 'min_evaluations': 500},
          'thorough': {'stateful_shards': 16, 'stateful_examples': 24000, 'steps': 14, 'min_evaluations': 8000}}
LOG = []
PREDICATES = {}

SHAPE_FOR_POINTS = [[0, 0, 4, 0, 4, 4, 0, 4, 0, 0], [1, 1, 1, 2, 2, 2, 2, 1, 1, 1]]
PROBE_POINTS = [[x / 2, y / 2] for x in range(-2, 10) for y in range(-2, 10)]


def _eq(a, b):
    a = np.asarray(a)
    b = np.asarray(b)
    if a.shape != b.shape:
        return False
    if a.dtype.kind == 'f' or b.dtype.kind == 'f':
        return bool(np.array_equal(a.astype(np.float64), b.astype(np.float64), equal_nan=True))
    return bool(np.array_equal(a, b))


class Interp:
    def __init__(self):
        self.live = []          # [arr, model(list of canonical elements)]
        self.kind = None
        self.derivations = 0
        self._labels = set()
        self._tmp = None
        self.B = ['C16']
        self.allow_d16 = False
        self.own_sindex = False

    # ------------------------------------------------------------------ helpers
    def labels(self):
        labs = sorted(self._labels) + [self.kind or 'nokind']
        if any(a.data.offset for a, _ in self.live):
            labs.append('nonzero-offset')
        return labs

    def nontrivial(self):
        return self.derivations >= 2 and any(a.data.offset for a, _ in self.live)

    def close(self):
        if self._tmp:
            shutil.rmtree(self._tmp, ignore_errors=True)
            self._tmp = None

    def tmp(self):
        if not self._tmp:
            self._tmp = tempfile.mkdtemp(prefix='vp_c16_')
        return self._tmp

    def fresh(self, mdl):
        return model.build_array(self.kind, [model.denorm(e) if e is not None else None for e in mdl], self.subtype)

    def pick(self, k):
        return self.live[k % len(self.live)]

    def push(self, arr, mdl, op):
        self.check(arr, mdl, op)
        self.live.append([arr, mdl])
        if len(self.live) > 6:
            self.live.pop(0)

    def leafless(self, e):
        return e is not None and isinstance(e, list) and e != [] and not model.has_leaf(e)

    # ------------------------------------------------------------------ invariant for one array
    def check(self, arr, mdl, op):
        B = self.B + [op]
        if type(arr) is not model.array_class(self.kind):
            raise Failure(B + ['type'], f'{type(arr).__name__}')
        got = model.to_canonical(arr)
        if got != mdl:
            what = 'missing-mismatch' if [e is None for e in got] != [e is None for e in mdl] else 'elements-differ'
            raise Failure(B + [what], f'array holds {got} expected {mdl} (offset={arr.data.offset})')
        if len(arr) != len(mdl):
            raise Failure(B + ['len'], f'{len(arr)} != {len(mdl)}')
        isna = lib(B + ['isna'], arr.isna)
        if list(map(bool, isna)) != [e is None for e in mdl]:
            raise Failure(B + ['isna'], f'isna={list(map(bool, isna))} model={[e is None for e in mdl]} offset={arr.data.offset}')
        if str(arr.dtype) != f'{self.kind}[{self.subtype}]':
            raise Failure(B + ['dtype'], f'{arr.dtype} expected {self.kind}[{self.subtype}]')
        fr = self.fresh(mdl)
        off = f'(offset={arr.data.offset}, model={mdl})'
        for name in ('bounds', 'total_bounds', 'total_bounds_x', 'total_bounds_y', 'length', 'area'):
            a = lib(B + [name], lambda: getattr(arr, name))
            b = getattr(fr, name)
            if not _eq(a, b):
                raise Failure(B + ['derived', name], f'{np.asarray(a).tolist()} != fresh {np.asarray(b).tolist()} {off}')
        for box in self.boxes:
            a = lib(B + ['intersects_bounds'], arr.intersects_bounds, tuple(box))
            if not _eq(a, fr.intersects_bounds(tuple(box))):
                raise Failure(B + ['derived', 'intersects_bounds'], f'box={box} {np.asarray(a).tolist()} != fresh {fr.intersects_bounds(tuple(box)).tolist()} {off}')
            if len(mdl):
                a = sorted(int(v) for v in lib(B + ['sindex'], lambda: model.array_class(self.kind)(arr.data, dtype=arr.dtype).sindex.intersects(tuple(box))))
                b = sorted(int(v) for v in fr.sindex.intersects(tuple(box)))
                if a != b:
                    raise Failure(B + ['derived', 'sindex.intersects'], f'box={box} {a} != fresh {b} {off}')
                if self.own_sindex:
                    # the array's own cached index (every array of this history builds one as soon as it exists, so a
                    # derived array that inherits its parent's index shows here)
                    a = sorted(int(v) for v in lib(B + ['own-sindex'], lambda: arr.sindex.intersects(tuple(box))))
                    if a != b:
                        raise Failure(B + ['derived', 'own-sindex.intersects'], f'box={box} {a} != fresh {b} {off}')
                    x0, x1 = sorted((box[0], box[2]))
                    y0, y1 = sorted((box[1], box[3]))
                    if x0 < x1 and y0 < y1:
                        ca = model.to_canonical(lib(B + ['cx'], lambda: arr.cx[x0:x1, y0:y1]))
                        cb = model.to_canonical(fr.cx[x0:x1, y0:y1])
                        if ca != cb:
                            raise Failure(B + ['derived', 'cx-with-own-sindex'], f'box={box} {ca} != fresh {cb} {off}')
        if len(mdl):
            a = lib(B + ['hilbert_distance'], arr.hilbert_distance, list(self.tb), self.p)
            b = fr.hilbert_distance(list(self.tb), self.p)
            if not _eq(a, b):
                raise Failure(B + ['derived', 'hilbert_distance'], f'{np.asarray(a).tolist()} != fresh {np.asarray(b).tolist()} {off}')
        if self.kind == 'point':
            a = lib(B + ['intersects'], arr.intersects, self.shape)
            if not _eq(a, fr.intersects(self.shape)):
                raise Failure(B + ['derived', 'point.intersects'], f'{np.asarray(a).tolist()} != fresh {fr.intersects(self.shape).tolist()} {off}')
            inds = np.arange(len(mdl))[::-2].astype(np.uint32)
            a = lib(B + ['intersects-inds'], arr.intersects, self.shape, inds)
            if not _eq(a, fr.intersects(self.shape, inds)):
                raise Failure(B + ['derived', 'point.intersects-inds'], f'{np.asarray(a).tolist()} != fresh {off}')
        else:
            for i, e in enumerate(mdl):
                if e is None or self.leafless(e) or i > 3:
                    continue
                sa = lib(B + ['getitem'], arr.__getitem__, i)
                sb = fr[i]
                a = lib(B + ['probe.intersects'], self.probe.intersects, sa)
                if not _eq(a, self.probe.intersects(sb)):
                    raise Failure(B + ['derived', 'points-vs-element-scalar'], f'i={i} el={e} {off}')

    # ------------------------------------------------------------------ steps
    def apply(self, s):
        op = s['op']
        if op == 'init':
            self.kind, self.subtype = s['kind'], s['subtype']
            self.B = ['C16', self.kind]
            self.boxes, self.tb, self.p = s['boxes'], s['total_bounds'], s['p']
            self.allow_d16 = bool(s.get('allow_d16'))
            self.own_sindex = bool(s.get('own_sindex'))
            if self.own_sindex:
                self._labels.add('own-sindex-history')
            if self.kind == 'point':
                self.shape = model.build_array('polygon', [SHAPE_FOR_POINTS], 'float64')[0]
            else:
                self.probe = model.build_array('point', PROBE_POINTS, 'float64')
            if s.get('first') is not None:
                self.apply({'op': 'new', 'elements': s['first']})
            return
        B = self.B + [op]
        if op == 'new':
            els = s['elements']
            arr = lib(B, model.build_array, self.kind, els, self.subtype)
            self.push(arr, model.canon_elements([model._conv(e, self.subtype) for e in els]), op)
            return
        if not self.live:
            return
        arr, mdl = self.pick(s.get('src', 0))
        n = len(mdl)
        self._labels.add(op)
        if op == 'getitem_int':
            i = s['i']
            if -n <= i < n:
                e = mdl[i]
                if self.leafless(e) and not self.allow_d16:
                    self._labels.add('excluded:D16-leafless-getitem')
                    return
                try:
                    sc = arr[i]
                except Exception as ex:  # noqa: BLE001
                    tag = ['leafless-element'] if self.leafless(e) else []
                    raise Failure(B + tag + ['raises', type(ex).__name__], f'arr[{i}] on {mdl}: {type(ex).__name__}: {ex}') from ex
                if e is None:
                    if sc is not None:
                        raise Failure(B + ['missing-not-None'], f'arr[{i}] = {sc!r}')
                else:
                    if sc is None or type(sc) is not model.scalar_class(self.kind):
                        raise Failure(B + ['scalar-type'], f'arr[{i}] = {sc!r}')
                    got = model.canon_el(np.frombuffer(sc.data.as_py(), dtype=self.subtype).tolist()) if self.kind == 'point' else model.canon_el(sc.data.as_py())
                    if got != e:
                        raise Failure(B + ['scalar-differs'], f'arr[{i}] = {got} expected {e} (offset={arr.data.offset})')
            else:
                self._labels.add('invalid-request')
                try:
                    arr[i]
                except IndexError:
                    return
                except Exception as ex:  # noqa: BLE001
                    raise Failure(B + ['invalid', 'wrong-error', type(ex).__name__], f'arr[{i}] len {n}: {ex}') from ex
                raise Failure(B + ['invalid', 'no-error'], f'arr[{i}] with len {n} did not raise')
            return
        if op == 'iterate':
            if any(self.leafless(e) for e in mdl) and not self.allow_d16:
                self._labels.add('excluded:D16-leafless-getitem')
                return
            items = lib(B, list, arr)
            if len(items) != n or any((x is None) != (e is None) for x, e in zip(items, mdl)):
                raise Failure(B + ['iteration'], f'{items} vs {mdl}')
            new = lib(B + ['_from_sequence'], type(arr)._from_sequence, items, dtype=arr.dtype)
            self.derivations += 1
            self.push(new, list(mdl), op)
            return
        self.derivations += 1
        if op == 'slice':
            sl = slice(s['start'], s['stop'], s['step'])
            new = lib(B, arr.__getitem__, sl)
            self.push(new, mdl[sl], op)
        elif op == 'mask':
            bits = [bool(s['bits'][i % len(s['bits'])]) for i in range(n)] if s['bits'] else [False] * n
            form = s.get('form', 'ndarray')
            m = np.array(bits, dtype=bool) if form == 'ndarray' else (list(bits) if form == 'list' else __import__('pandas').array(bits, dtype='boolean'))
            if n == 0 and form == 'list':
                m = np.array(bits, dtype=bool)
            new = lib(B, arr.__getitem__, m)
            self.push(new, [e for e, b in zip(mdl, bits) if b], op)
        elif op == 'bad_mask':
            self._labels.add('invalid-request')
            m = np.ones(n + 1 + s.get('extra', 0), dtype=bool)
            try:
                arr[m]
            except IndexError:
                return
            except Exception as ex:  # noqa: BLE001
                raise Failure(B + ['invalid', 'wrong-error', type(ex).__name__], str(ex)) from ex
            raise Failure(B + ['invalid', 'no-error'], f'mask of length {len(m)} on array of length {n}')
        elif op in ('take', 'list_index'):
            fill = bool(s.get('allow_fill')) and op == 'take'
            raw = s['indices']
            if s.get('valid', True) and (n or fill):
                idx = [(-1 if (fill and v % 3 == 0) else (v % n if n else -1) - (n if (v % 2 and not fill and n) else 0)) for v in raw]
            else:
                idx = list(raw)
            # expected result per pandas semantics
            exp, err = [], None
            if n == 0 and len(idx) > 0 and (not fill or any(i >= 0 for i in idx)):
                err = IndexError
            else:
                for i in idx:
                    if fill:
                        if i >= n:
                            err = IndexError
                            break
                        if i < -1:
                            err = err or ValueError
                            continue
                        exp.append(None if i == -1 else mdl[i])
                    else:
                        if i >= n or i < -n:
                            err = IndexError
                            break
                        exp.append(mdl[i])
            ia = np.array(idx, dtype=np.int64)
            call = (lambda: arr.take(ia, allow_fill=fill)) if op == 'take' else (lambda: arr[list(idx)] if idx else arr[[]])
            if err is not None:
                self._labels.add('invalid-request')
                try:
                    call()
                except err:
                    self.check(arr, mdl, op + '-after-invalid')
                    return
                except Exception as ex:  # noqa: BLE001
                    raise Failure(B + ['invalid', 'wrong-error', type(ex).__name__], f'indices={idx} fill={fill} n={n}: expected {err.__name__}: {ex}') from ex
                raise Failure(B + ['invalid', 'no-error'], f'indices={idx} fill={fill} n={n}: expected {err.__name__}')
            new = lib(B, call)
            self.push(new, exp, op + ('-fill' if fill else ''))
        elif op == 'concat':
            srcs = [self.pick(k) for k in s['srcs']]
            new = lib(B, type(arr)._concat_same_type, [a for a, _ in srcs])
            self.push(new, [e for _, m in srcs for e in m], op)
        elif op == 'copy':
            self.push(lib(B, arr.copy), list(mdl), op)
        elif op == 'pickle':
            self.push(lib(B, lambda: pickle.loads(pickle.dumps(arr))), list(mdl), op)
        elif op in ('series_iloc', 'frame_iloc', 'series_loc'):
            import pandas as pd
            import spatialpandas as sp
            rows = [v % n for v in s['rows']] if n else []
            if op == 'series_iloc':
                new = lib(B, lambda: sp.GeoSeries(arr).iloc[rows].array)
                exp = [mdl[i] for i in rows]
            elif op == 'frame_iloc':
                def f():
                    df = sp.GeoDataFrame({'v': np.arange(n), 'g': arr}, index=[f'k{i}' for i in range(n)])
                    sub = df.iloc[rows]
                    if list(sub['v']) != rows:
                        raise Failure(B + ['other-column'], f'{list(sub["v"])} vs {rows}')
                    return sub['g'].array
                new = lib(B, f)
                exp = [mdl[i] for i in rows]
            else:
                bits = [(i in set(rows)) for i in range(n)]
                new = lib(B, lambda: sp.GeoSeries(arr, index=list(range(10, 10 + n))).loc[pd.Series(bits, index=list(range(10, 10 + n)), dtype=bool)].array)
                exp = [e for e, b in zip(mdl, bits) if b]
            self.push(new, exp, op)
        elif op == 'parquet':
            import spatialpandas as sp
            from spatialpandas.io import read_parquet, to_parquet
            path = os.path.join(self.tmp(), f'a{len(os.listdir(self.tmp()))}.parquet')

            def f():
                to_parquet(sp.GeoDataFrame({'g': arr}), path)
                return read_parquet(path)['g'].array
            self.push(lib(B, f), list(mdl), op)
        else:
            raise RuntimeError(f'unknown op {op}')


def evaluate(case):
    it = Interp()
    try:
        for s in case['steps']:
            it.apply(s)
        return outcome(labels=it.labels(), nontrivial=it.nontrivial())
    except Failure as f:
        return outcome(failures=[(f.bucket, f.detail)], labels=it.labels(), nontrivial=True)
    finally:
        it.close()


# ----------------------------------------------------------------------------- strategies
@st.composite
def _header(draw):
    kind = draw(st.sampled_from(model.KINDS))
    subtype = draw(gen.subtypes)
    boxes = [[draw(st.integers(-5, 3)), draw(st.integers(-5, 3)), draw(st.integers(0, 7)), draw(st.integers(0, 7))] for _ in range(2)]
    return {'op': 'init', 'kind': kind, 'subtype': subtype, 'boxes': boxes,
            'total_bounds': draw(st.sampled_from([[-4.0, -4.0, 6.0, 6.0], [-8.0, -8.0, 8.0, 8.0], [0.0, 0.0, 1.0, 3.0]])),
            'p': draw(st.integers(1, 16)), 'own_sindex': draw(st.booleans())}


@st.composite
def _step(draw, kind, subtype):
    op = draw(st.sampled_from(['new', 'getitem_int', 'slice', 'slice', 'subslice', 'subslice', 'mask', 'take', 'take', 'list_index', 'concat', 'copy',
                               'pickle', 'iterate', 'series_iloc', 'series_loc', 'frame_iloc', 'parquet', 'bad_mask']))
    src = draw(st.integers(0, 5))
    if op == 'new':
        n = draw(st.integers(0, 6))
        els = []
        for _ in range(n):
            r = draw(st.integers(0, 7))
            if r == 0:
                els.append(None)
            elif r == 1:
                els.append(([float('nan'), float('nan')] if subtype.startswith('float') else None) if kind == 'point' else [])
            else:
                els.append(draw(gen.any_element(kind, subtype, False, False)))
        return {'op': 'new', 'elements': els}
    if op == 'getitem_int':
        return {'op': op, 'src': src, 'i': draw(st.integers(-9, 9))}
    if op == 'subslice':
        return {'op': 'slice', 'src': src, 'start': draw(st.integers(1, 9)), 'stop': draw(st.sampled_from([None, None, None, -1, 5, 12])), 'step': None}
    if op == 'slice':
        o = st.one_of(st.none(), st.integers(-8, 8))
        return {'op': op, 'src': src, 'start': draw(o), 'stop': draw(o), 'step': draw(st.sampled_from([None, None, 1, 1, 2, 3, -1, -2, -3]))}
    if op == 'mask':
        return {'op': op, 'src': src, 'bits': draw(st.lists(st.booleans(), min_size=0, max_size=7)), 'form': draw(st.sampled_from(['ndarray', 'list', 'boolean']))}
    if op == 'bad_mask':
        return {'op': op, 'src': src, 'extra': draw(st.integers(0, 2))}
    if op in ('take', 'list_index'):
        valid = draw(st.integers(0, 4)) != 0
        return {'op': op, 'src': src, 'indices': draw(st.lists(st.integers(0, 30) if valid else st.integers(-9, 9), max_size=7)),
                'allow_fill': draw(st.booleans()), 'valid': valid}
    if op == 'concat':
        return {'op': op, 'src': src, 'srcs': draw(st.lists(st.integers(0, 5), min_size=2, max_size=3))}
    if op in ('series_iloc', 'series_loc', 'frame_iloc'):
        return {'op': op, 'src': src, 'rows': draw(st.lists(st.integers(0, 30), max_size=6))}
    return {'op': op, 'src': src}


@st.composite
def _first(draw, kind, subtype):
    # mostly small; sometimes long enough for validity bitmaps of several bytes and slices crossing byte boundaries
    n = draw(st.one_of(st.integers(3, 7), st.integers(3, 7), st.integers(9, 20)))
    els = []
    for _ in range(n):
        r = draw(st.integers(0, 7))
        if r == 0:
            els.append(None)
        elif r == 1:
            els.append(([float('nan'), float('nan')] if subtype.startswith('float') else None) if kind == 'point' else [])
        else:
            els.append(draw(gen.any_element(kind, subtype, False, False)))
    return {'elements': els}


# The rule strategy cannot see the header a run drew, so each shard builds one machine class per kind with a
# subtype fixed from the shard seed (header = that kind/subtype + drawn boxes / bounds / p).
def machines(tier, res, seed):
    import vpbt.checks.c16 as me
    out = []
    for j in range(7):
        kind = model.KINDS[(seed + j) % 7]
        subtype = model.SUBTYPES[(seed // 7 + j * 2) % 5]
        hdr = st.builds(lambda h, first, k=kind, s=subtype: dict(h, kind=k, subtype=s, first=first['elements']),
                        _header(), _first(kind, subtype))
        out.append(make_machine(me, res, hdr, _step(kind, subtype), Interp))
    return out
