"""C05 - spatial join returns exactly the intersecting (left, right) pairs."""
import collections
import math

import numpy as np
from hypothesis import strategies as st

from .. import gen, model, oracle_geom as og
from ..harness import lib, outcome

PROPERTY = 'C05'
LEVEL = 'exploration'
RULE = ('E1 (Hypothesis): left GeoDataFrame with a point column (duplicates, missing points, 0..10 rows; float64/float32/int '
        'subtypes), extra columns of which some clash with the right frame, index in {default, named, non-unique, strings}; '
        'right GeoDataFrame of one of the 7 kinds (valid, mutually overlapping polygons so that one point matches many; shapes '
        'matching nothing; missing/empty shapes; 0..5 rows), extra columns, own index; how in {inner,left,right}; drawn suffixes; '
        'optionally both geometry columns named "geometry". Left points are the lattice points around the shapes that the exact '
        'classifier puts strictly inside or strictly outside EVERY right polygon (on-ring candidates are dropped inside the '
        'strategy). Oracle: nested-loop model join built from the exact point classifier (C02 oracle); comparison as multisets '
        'of complete rows (index label + canonical value of every column, NaN-aware), column-name set, index name, result type. '
        'Non-trivial: some point matches >= 2 shapes, or some row is unmatched on the kept side, or the left index is non-unique. '
        'distinct = distinct cases.')
RULE += (' Added after the seeded rounds: either frame may be a row slice of a longer frame (missing rows in front); strided RangeIndex index kinds.')
ASSUMPTIONS = ['row order and column order are not asserted', 'dtype of columns that acquire NaN is not asserted (values compared numerically)']
BUDGET = {'quick': {'shards': 16, 'examples': 1600, 'min_evaluations': 800},
          'thorough': {'shards': 16, 'examples': 12000, 'min_evaluations': 6000}}


def _val(v):
    if v is None:
        return None
    if isinstance(v, float) and math.isnan(v):
        return None
    try:
        import pandas as pd
        if v is pd.NA or v is pd.NaT:
            return None
    except Exception:  # noqa: BLE001
        pass
    if isinstance(v, (np.integer,)):
        return int(v)
    if isinstance(v, (np.floating, float)):
        f = float(v)
        return int(f) if f == int(f) else f
    if isinstance(v, (np.bool_,)):
        return bool(v)
    return v


def _frame_rows(df):
    """multiset of rows of a result frame: (index label, sorted (col, canonical value) pairs)"""
    from spatialpandas.geometry import GeometryDtype
    cols = {}
    for c in df.columns:
        if isinstance(df[c].dtype, GeometryDtype):
            cols[c] = [None if e is None else ('geom', repr(e)) for e in model.to_canonical(df[c].array)]
        else:
            cols[c] = [_val(v) for v in df[c].tolist()]
    rows = []
    idx = [_val(v) for v in df.index.tolist()]
    for i in range(len(df)):
        rows.append((repr(idx[i]), tuple(sorted((str(c), repr(cols[c][i])) for c in cols))))
    return collections.Counter(rows)


def _model_rows(rows):
    return collections.Counter((repr(_val(ix)), tuple(sorted((str(c), repr(_val(v) if not (isinstance(v, tuple) and v and v[0] == 'geom') else v)) for c, v in r.items())))
                               for ix, r in rows)


def evaluate(case):
    import spatialpandas as sp
    kind = case['right_kind']
    rshapes = case['right_shapes']
    pts = case['left_points']
    how, ls, rs = case['how'], case['lsuffix'], case['rsuffix']
    B = ['C05', how]
    # preconditions: valid polygons, points off the rings
    if kind in ('polygon', 'multipolygon'):
        from .c01 import _valid_case
        try:
            if not _valid_case({'kind': kind, 'elements': rshapes, 'boxes': []}):
                return outcome(rejected=True)
        except ValueError:
            return outcome(rejected=True)
    pairs = []
    for i, p in enumerate(pts):
        for j, s in enumerate(rshapes):
            if p is None or s is None or (isinstance(p[0], float) and p[0] != p[0]):
                continue
            r = og.point_vs_shape(p[0], p[1], kind, s)
            if r == 'on':
                return outcome(rejected=True)
            if r:
                pairs.append((i, j))
    nl, nr = len(pts), len(rshapes)
    lgeom = case['left_geom_name']
    rgeom = case['right_geom_name']
    import pandas as pd
    # either frame may be a contiguous row slice of a longer frame (rows in front of and behind it, some of them
    # missing): the join sees the slice only
    lfront, lback = case.get('left_pad', [[], []])
    rfront, rback = case.get('right_pad', [0, 0])
    full_pts = list(lfront) + list(pts) + list(lback)
    full_shapes = [None] * rfront + list(rshapes) + [None] * rback
    NL, NR = len(full_pts), len(full_shapes)
    lf, rf = len(lfront), rfront
    larr_full = model.build_array('point', full_pts, case['left_subtype'])
    rarr_full = model.build_array(kind, full_shapes, case['right_subtype'])

    def index_of(which, n, name):
        if which == 'default':
            return pd.RangeIndex(n)
        if which == 'strided':
            return pd.RangeIndex(0, 2 * n, 2)
        if which == 'strided3':
            return pd.RangeIndex(1, 3 * n + 1, 3)
        vals = {'named': [10 + 3 * i for i in range(n)], 'nonunique': [i % 2 for i in range(n)], 'strings': [f'{name[0]}{i}' for i in range(n)]}[which]
        return pd.Index(vals, name=name if which == 'named' else None)
    li_full = index_of(case['left_index'], NL, 'lname')
    ri_full = index_of(case['right_index'], NR, 'rname')
    lcols_full = collections.OrderedDict()
    lcols_full['a'] = [i * 2 for i in range(NL)]
    if case.get('clash'):
        lcols_full['v'] = [f'lv{i}' for i in range(NL)]
    lcols_full[lgeom] = larr_full
    rcols_full = collections.OrderedDict()
    rcols_full['b'] = [j * 5 + 1 for j in range(NR)]
    if case.get('clash'):
        rcols_full['v'] = [f'rv{j}' for j in range(NR)]
    rcols_full[rgeom] = rarr_full
    left = lib(B + ['construct-left'], lambda: sp.GeoDataFrame(dict(lcols_full), index=li_full))
    right = lib(B + ['construct-right'], lambda: sp.GeoDataFrame(dict(rcols_full), index=ri_full))
    if NL != nl:
        left = lib(B + ['slice-left'], lambda: left.iloc[lf:lf + nl])
    if NR != nr:
        right = lib(B + ['slice-right'], lambda: right.iloc[rf:rf + nr])
    li, ri = left.index, right.index
    lidx, ridx = li_full.tolist()[lf:lf + nl], ri_full.tolist()[rf:rf + nr]
    if li.tolist() != lidx or ri.tolist() != ridx or len(left) != nl or len(right) != nr:
        raise RuntimeError('harness: sliced frames do not carry the expected labels')
    lcols = collections.OrderedDict((c, (v if c == lgeom else v[lf:lf + nl])) for c, v in lcols_full.items())
    rcols = collections.OrderedDict((c, (v if c == rgeom else v[rf:rf + nr])) for c, v in rcols_full.items())
    larr = left[lgeom].array
    rarr = right[rgeom].array
    res = lib(B + ['sjoin'], sp.sjoin, left, right, how=how, lsuffix=ls, rsuffix=rs)
    fails = []
    if type(res).__name__ != 'GeoDataFrame':
        fails.append((B + ['type'], type(res).__name__))
    lcanon = [None if e is None else ('geom', repr(e)) for e in model.to_canonical(larr)]
    rcanon = [None if e is None else ('geom', repr(e)) for e in model.to_canonical(rarr)]
    clash = bool(case.get('clash'))
    same_geom_name = lgeom == rgeom

    def lname(c):
        return f'{c}_{ls}' if (clash and c == 'v') else c

    def rname(c):
        return f'{c}_{rs}' if (clash and c == 'v') else c
    rows = []
    if how in ('inner', 'left'):
        matched = set()
        for i, j in pairs:
            matched.add(i)
            r = {lname(c): (lcanon[i] if c == lgeom else lcols[c][i]) for c in lcols}
            r[f'index_{rs}'] = ridx[j]
            for c in rcols:
                if c != rgeom:
                    r[rname(c)] = rcols[c][j]
            rows.append((lidx[i], r))
        if how == 'left':
            for i in range(nl):
                if i not in matched:
                    r = {lname(c): (lcanon[i] if c == lgeom else lcols[c][i]) for c in lcols}
                    r[f'index_{rs}'] = None
                    for c in rcols:
                        if c != rgeom:
                            r[rname(c)] = None
                    rows.append((lidx[i], r))
        exp_index_name = li.name
    else:
        matched = set()
        for i, j in pairs:
            matched.add(j)
            r = {rname(c): (rcanon[j] if c == rgeom else rcols[c][j]) for c in rcols}
            r[f'index_{ls}'] = lidx[i]
            for c in lcols:
                if c != lgeom:
                    r[lname(c)] = lcols[c][i]
            rows.append((ridx[j], r))
        for j in range(nr):
            if j not in matched:
                r = {rname(c): (rcanon[j] if c == rgeom else rcols[c][j]) for c in rcols}
                r[f'index_{ls}'] = None
                for c in lcols:
                    if c != lgeom:
                        r[lname(c)] = None
                rows.append((ridx[j], r))
        exp_index_name = ri.name
    exp_cols = set(rows[0][1].keys()) if rows else None
    if exp_cols is None:
        if how in ('inner', 'left'):
            exp_cols = {lname(c) for c in lcols} | {f'index_{rs}'} | {rname(c) for c in rcols if c != rgeom}
        else:
            exp_cols = {rname(c) for c in rcols} | {f'index_{ls}'} | {lname(c) for c in lcols if c != lgeom}
    got_cols = set(map(str, res.columns))
    if got_cols != exp_cols:
        fails.append((B + ['columns'], f'got {sorted(got_cols)} expected {sorted(exp_cols)} (clash={clash} suffixes={ls},{rs})'))
    else:
        got = _frame_rows(res)
        exp = _model_rows(rows)
        if got != exp:
            extra = list((got - exp).elements())[:2]
            missing = list((exp - got).elements())[:2]
            if sum(got.values()) > sum(exp.values()) and not missing:
                what = 'duplicated-or-extra-pairs'
            elif missing and not extra:
                what = 'missing-pairs'
            else:
                what = 'rows-differ'
            fails.append((B + ['rows', what], f'points={pts} shapes={rshapes} kind={kind} pairs={pairs} extra={extra} missing={missing}'))
    if len(res) and res.index.name != exp_index_name or (not len(res) and res.index.name not in (exp_index_name, None)):
        fails.append((B + ['index-name'], f'{res.index.name!r} expected {exp_index_name!r}'))
    labels = [how, 'right:' + kind, 'lidx:' + case['left_index'], 'ridx:' + case['right_index']]
    if NL != nl:
        labels.append('left-is-a-slice' + ('-after-missing' if any(p is None for p in lfront) else ''))
    if NR != nr:
        labels.append('right-is-a-slice')
    multi = any(sum(1 for (i, j) in pairs if i == k) >= 2 for k in range(nl))
    unmatched_l = any(all(i != k for i, _ in pairs) for k in range(nl))
    unmatched_r = any(all(j != k for _, j in pairs) for k in range(nr))
    if multi:
        labels.append('point-matches-many')
    if unmatched_l:
        labels.append('unmatched-left')
    if unmatched_r:
        labels.append('unmatched-right')
    if nl == 0:
        labels.append('empty-left')
    if nr == 0:
        labels.append('empty-right')
    if clash:
        labels.append('clash')
    if any(p is None for p in pts):
        labels.append('missing-point')
    if any(s is None for s in rshapes):
        labels.append('missing-shape')
    if not pairs:
        labels.append('no-pairs')
    nt = bool(pairs) and (multi or (how == 'left' and unmatched_l) or (how == 'right' and unmatched_r) or case['left_index'] == 'nonunique')
    return outcome(failures=fails, labels=labels, nontrivial=nt)


# ----------------------------------------------------------------------------- strategy
def _pad(pts):
    real = [p for p in pts if p is not None]
    el = st.one_of(st.none(), st.sampled_from(real)) if real else st.none()
    return st.lists(el, max_size=4)


@st.composite
def _case(draw):
    kind = draw(st.sampled_from(['polygon', 'polygon', 'multipolygon', 'multipolygon', 'line', 'multiline', 'ring', 'point', 'multipoint']))
    nr = draw(st.sampled_from([0, 1, 2, 3, 3, 4, 5]))
    shapes = []
    for _ in range(nr):
        r = draw(st.integers(0, 11))
        if r == 0:
            shapes.append(None)
        elif r == 1:
            shapes.append(None if kind == 'point' else [])
        else:
            el = gen.no_leafless(draw(gen.base_shapes(kind))[0])
            # shift so that shapes overlap each other partially
            dx, dy = draw(st.integers(-3, 6)), draw(st.integers(-3, 6))
            shapes.append(gen.apply_xf(kind, el, {'m': 1, 'tx': dx, 'ty': dy, 'q': 1}) if el else el)
    rsub = draw(st.sampled_from(['float64', 'float32', 'int64', 'int16']))
    if rsub.startswith('float') and draw(st.booleans()):
        # fractional vertices (halves): the exact test must use the shape as stored, not a copy cast to the points' subtype
        shapes = [gen.apply_xf(kind, el, {'m': 1, 'tx': 1, 'ty': -1, 'q': 2}) if el else el for el in shapes]
    fl = [v for s in shapes if s is not None for v in model.flat_coords(kind, s)]
    if fl:
        x0, x1, y0, y1 = min(fl[0::2]) - 1, max(fl[0::2]) + 1, min(fl[1::2]) - 1, max(fl[1::2]) + 1
    else:
        x0, x1, y0, y1 = 0, 3, 0, 3
    lsub = draw(st.sampled_from(['float64', 'float64', 'float32', 'int64', 'int32']))
    halves = lsub.startswith('float')
    # candidate lattice points around the shapes, classified by the exact oracle; on-ring candidates are dropped
    step = 0.5 if halves else 1
    if not halves:
        # integer point subtypes hold integer coordinates only
        import math
        x0, y0, x1, y1 = math.floor(x0), math.floor(y0), math.ceil(x1), math.ceil(y1)
    nxs = int((x1 - x0) / step) + 1
    nys = int((y1 - y0) / step) + 1
    stride = max(1, int(((nxs * nys) / 400) ** 0.5) + (1 if nxs * nys > 400 else 0))
    hit, miss, multi = [], [], []
    for ix in range(0, nxs, stride):
        for iy in range(0, nys, stride):
            x, y = x0 + ix * step, y0 + iy * step
            x, y = (int(x) if x == int(x) else x), (int(y) if y == int(y) else y)
            cls = [og.point_vs_shape(x, y, kind, sh) for sh in shapes if sh is not None]
            if 'on' in cls:
                continue
            (hit if any(c is True for c in cls) else miss).append([x, y])
            if sum(1 for c in cls if c is True) >= 2:
                multi.append([x, y])
    nl = draw(st.sampled_from([0, 1, 2, 3, 4, 5, 6, 8, 10]))
    pts = []
    for _ in range(nl):
        r = draw(st.integers(0, 11))
        if r == 0:
            pts.append(None)
        elif r == 1 and pts and pts[-1] is not None:
            pts.append(pts[-1])
        elif multi and r in (2, 3, 4):
            pts.append(draw(st.sampled_from(multi)))
        elif hit and (r <= 8 or not miss):
            pts.append(draw(st.sampled_from(hit)))
        elif miss:
            pts.append(draw(st.sampled_from(miss)))
        else:
            pts.append(None)
    same = draw(st.integers(0, 4)) == 0
    suf = draw(st.sampled_from([['left', 'right'], ['left', 'right'], ['l', 'r'], ['x', 'y']]))
    return {'right_kind': kind, 'right_shapes': shapes, 'right_subtype': rsub,
            'left_points': pts, 'left_subtype': lsub, 'how': draw(st.sampled_from(['inner', 'left', 'right'])),
            'lsuffix': suf[0], 'rsuffix': suf[1], 'clash': draw(st.booleans()),
            'left_index': draw(st.sampled_from(['default', 'named', 'nonunique', 'strings', 'strided', 'strided3'])),
            'right_index': draw(st.sampled_from(['default', 'named', 'strings', 'strided'])),
            'left_pad': draw(st.one_of(st.just([[], []]), st.tuples(_pad(pts), _pad(pts)).map(list))),
            'right_pad': draw(st.one_of(st.just([0, 0]), st.tuples(st.integers(0, 3), st.integers(0, 2)).map(list))),
            'left_geom_name': 'geometry' if same else 'pt', 'right_geom_name': 'geometry' if same else 'g'}


def strategy(tier):
    return _case()
