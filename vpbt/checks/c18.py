"""C18 - results do not depend on scheduling, thread count or concurrent use (schedule sampling)."""
import os
import shutil
import sys
import tempfile
import threading

import numpy as np
from hypothesis import strategies as st

from .. import faultfs, model
from ..harness import lib, outcome

PROPERTY = 'C18'
LEVEL = 'exploration'
RULE = ('Schedule sampling (the harness cannot own the OS / OpenMP / Dask thread schedule; it perturbs it and compares with the '
        'serial run). E1 (Hypothesis) in fresh interpreters started with NUMBA_NUM_THREADS=16: a configuration = operation in '
        '{parallel kernels (bounds, length, area, intersects_bounds, PointArray.intersects on >= 20000 elements), cx, sjoin, Dask cx, '
        'Dask sjoin, Dask bounds/area, pack_partitions, pack_partitions_to_parquet, read_parquet_dask+compute} x Dask scheduler '
        '{synchronous, threads} x num_workers 1..16 x numba.set_num_threads in {1,2,4,16} x interpreter switch interval {default, 1e-6} '
        'x delays injected through a wrapping filesystem (drawn, hence replayable) x N in 2..12 client threads released by a barrier on '
        'one shared array / frame (including the first, index-building access) x 2..3 concurrent pack_partitions_to_parquet calls '
        'sharing a temp root. Oracle: the canonical result of the same operation run synchronously with one thread and no delays; '
        'repeated runs identical; every client gets it. Non-trivial: threads scheduler with >= 2 workers, or >= 2 numba threads on a '
        'parallel kernel, or >= 2 client threads. distinct = distinct configurations.')
RULE += (' Added after the seeded rounds: ragged array sizes, sorted data whose extremes are held by the first / last element alone, total_bounds of every kind.')
ASSUMPTIONS = ['interleavings are sampled, not enumerated: a race needing a microsecond-wide window may be missed',
               'the serial single-thread result is the reference']
ENV16 = {'NUMBA_NUM_THREADS': '16', 'OMP_NUM_THREADS': '16'}
BUDGET = {'quick': {'shards': 0, 'examples': 0, 'min_evaluations': 20, 'nproc': 3,
                    'sub_shards': [{'examples': 24, 'env': ENV16},
                                   {'examples': 24, 'env': ENV16},
                                   {'examples': 24, 'env': ENV16}]},
          'thorough': {'shards': 0, 'examples': 0, 'min_evaluations': 200, 'nproc': 4,
                       'sub_shards': [{'examples': 75, 'env': ENV16} for _ in range(8)]}}   # measured: 600 configurations in 17 min
RA = dict(stop_max_attempt_number=3)


def _data(case):
    """deterministic data from the case (numpy RandomState seeded by the case)"""
    import spatialpandas as sp
    rs = np.random.RandomState(case['data_seed'])
    n = case['n']
    pts = rs.randint(0, 200, size=(n, 2)).astype(float)
    xy = rs.randint(0, 180, size=(n, 2))
    wh = rs.randint(1, 20, size=(n, 2))
    order = case.get('order', 'random')
    if order != 'random':
        # extremes at the ends of the buffers (where a chunked reduction has its ragged first / last chunk)
        col, sign = {'sorted-x': (0, 1), 'sorted-y-desc': (1, -1)}[order]
        pts = pts[np.argsort(sign * pts[:, col], kind='stable')]
        o = np.argsort(sign * (xy[:, col] + (wh[:, col] if sign > 0 else 0)), kind='stable')
        xy, wh = xy[o], wh[o]
        # ... and held by the first / last element alone
        pts[-1, col] += 5 * sign
        pts[0, col] -= 5 * sign
        xy[-1, col] += 30 * sign
        xy[0, col] -= 30 * sign
    rings = [[[int(x), int(y), int(x + w), int(y), int(x + w), int(y + h), int(x), int(y + h), int(x), int(y)]] for (x, y), (w, h) in zip(xy, wh)]
    parr = model.build_array('point', pts.tolist(), 'float64')
    poly = model.build_array('polygon', rings, 'float64')
    line = model.build_array('line', [[int(x), int(y), int(x + w), int(y + h), int(x), int(y + h)] for (x, y), (w, h) in zip(xy, wh)], 'float64')
    return parr, poly, line


def _multi(case):
    """multi-part arrays for the kernels operation (multipolygon / multiline / multipoint kernels have their own loops)"""
    rs = np.random.RandomState(case['data_seed'] + 1)
    n = case['n']
    xy = rs.randint(0, 180, size=(n, 2))
    wh = rs.randint(1, 20, size=(n, 2))
    if case.get('order', 'random') != 'random':
        col, sign = {'sorted-x': (0, 1), 'sorted-y-desc': (1, -1)}[case['order']]
        o = np.argsort(sign * (xy[:, col] + (wh[:, col] if sign > 0 else 0)), kind='stable')
        xy, wh = xy[o], wh[o]
        xy[-1, col] += 70 * sign
        xy[0, col] -= 70 * sign

    def ring(x, y, w, h):
        return [int(x), int(y), int(x + w), int(y), int(x + w), int(y + h), int(x), int(y + h), int(x), int(y)]
    mpoly = model.build_array('multipolygon', [[[ring(x, y, w, h)], [ring(x + 25, y + 3, h, w)]] for (x, y), (w, h) in zip(xy, wh)], 'float64')
    mline = model.build_array('multiline', [[[int(x), int(y), int(x + w), int(y + h)], [int(x + 30), int(y), int(x + 30), int(y + h)]] for (x, y), (w, h) in zip(xy, wh)], 'float64')
    mpt = model.build_array('multipoint', [[int(x), int(y), int(x + w), int(y + h)] for (x, y), (w, h) in zip(xy, wh)], 'float64')
    return mpoly, mline, mpt


def _canon(x):
    import pandas as pd
    if isinstance(x, tuple):
        return tuple(_canon(v) for v in x)
    if isinstance(x, (pd.DataFrame,)):
        return ('df', [str(c) for c in x.columns], [str(i) for i in x.index],
                [[repr(v) for v in (model.to_canonical(x[c].array) if hasattr(x[c].dtype, 'subtype') else x[c].tolist())] for c in x.columns])
    if isinstance(x, pd.Series):
        return ('s', [str(i) for i in x.index], [repr(v) for v in (model.to_canonical(x.array) if hasattr(x.dtype, 'subtype') else x.tolist())])
    if isinstance(x, np.ndarray):
        return ('a', x.shape, x.tobytes())
    if hasattr(x, 'data') and hasattr(x, 'numpy_dtype'):
        return ('g', [repr(e) for e in model.to_canonical(x)])
    return repr(x)


def _ops(case, tmp):
    """returns (prepare, run): prepare() builds fresh shared objects; run(objs, tag) performs the operation and returns a result"""
    import dask.dataframe as dd
    import spatialpandas as sp
    from spatialpandas.io import read_parquet_dask
    op = case['op']
    box = (40.0, 30.0, 150.0, 120.0)
    shape_rings = [[20, 20, 160, 20, 160, 140, 90, 60, 20, 140, 20, 20], [40, 30, 40, 40, 50, 40, 50, 30, 40, 30]]
    npart = case.get('npartitions', 4)

    def frames():
        parr, poly, line = _data(case)
        n = len(parr)
        left = sp.GeoDataFrame({'id': np.arange(n), 'pt': parr, 'poly': poly}, index=np.arange(n))
        k = min(40, n)
        right = sp.GeoDataFrame({'b': np.arange(k), 'g': poly[:k]}, index=[f'R{i}' for i in range(k)])
        return left, right, line

    if op == 'kernels':
        def prepare():
            parr, poly, line = _data(case)
            mpoly, mline, mpt = _multi(case)
            return {'parr': parr, 'poly': poly, 'line': line, 'mpoly': mpoly, 'mline': mline, 'mpt': mpt,
                    'shape': model.build_array('polygon', [shape_rings], 'float64')[0],
                    'mshape': model.build_array('multipolygon', [[[shape_rings[0]], [[170, 100, 190, 100, 190, 130, 170, 100]]]], 'float64')[0],
                    'lshape': model.build_array('multiline', [[[0, 0, 200, 200], [0, 200, 200, 0]]], 'float64')[0]}

        def run(o, tag):
            return (o['poly'].bounds, o['poly'].length, o['poly'].area, o['line'].length, o['poly'].intersects_bounds(box),
                    o['line'].intersects_bounds(box), o['parr'].intersects(o['shape']), o['parr'].intersects_bounds(box),
                    np.array(o['poly'].total_bounds), o['poly'].hilbert_distance(p=9),
                    o['mpoly'].intersects_bounds(box), o['mline'].intersects_bounds(box), o['mpt'].intersects_bounds(box),
                    o['mpoly'].area, o['mpoly'].length, o['mline'].length, o['mpoly'].bounds,
                    o['parr'].intersects(o['mshape']),
                    # (this kernel opens an OpenMP region per point and line: a twelfth of the points keeps a case in seconds)
                    o['parr'].intersects(o['lshape'], np.arange(0, len(o['parr']), 12)),
                    o['mpoly'].intersects_bounds(box, np.arange(0, len(o['mpoly']), 3)),
                    np.array(o['parr'].total_bounds), np.array(o['line'].total_bounds), np.array(o['mpt'].total_bounds),
                    np.array(o['mpoly'].total_bounds), o['parr'].bounds)
    elif op == 'cx':
        def prepare():
            left, right, line = frames()
            return {'gdf': left.set_geometry(case.get('geom', 'pt'))}

        def run(o, tag):
            return o['gdf'].cx[box[0]:box[2], box[1]:box[3]]        # first access builds nothing; cx without index
    elif op == 'cx_sindex':
        def prepare():
            left, right, line = frames()
            return {'gdf': left.set_geometry(case.get('geom', 'pt'))}

        def run(o, tag):
            # the first caller builds the spatial index of the shared array
            arr = o['gdf'].geometry.array
            return (np.sort(arr.sindex.intersects(box)), o['gdf'].build_sindex(page_size=16).cx[box[0]:box[2], box[1]:box[3]])
    elif op == 'sjoin':
        def prepare():
            left, right, line = frames()
            return {'left': left.set_geometry('pt'), 'right': right}

        def run(o, tag):
            r = sp.sjoin(o['left'], o['right'], how=case.get('how', 'inner'))
            return r.sort_values(['id', 'index_right'], kind='stable')
    elif op in ('dask_cx', 'dask_sjoin', 'dask_measures', 'pack_partitions'):
        def prepare():
            left, right, line = frames()
            # sjoin needs points on the left
            g = 'pt' if op == 'dask_sjoin' else case.get('geom', 'pt')
            return {'pdf': left.set_geometry(g), 'right': right}

        def run(o, tag):
            # clients share the pandas frame (the spatialpandas arrays and their lazily built indexes); every caller builds
            # its own Dask collection: computing ONE dask-expr collection from several threads at once fails inside Dask
            # itself (KeyError on a lowered graph key), which is not the library's business
            # dask-expr interns expressions by a content token, so collections built from equal frames are still ONE
            # expression object underneath; a throw-away column that differs per caller keeps them apart (it is dropped
            # from the results; the geometry arrays stay shared)
            ddf = dd.from_pandas(o['pdf'].assign(client_=tag), npartitions=npart, sort=False)
            if op == 'dask_cx':
                return ddf.cx[box[0]:box[2], box[1]:box[3]].compute().drop(columns='client_')
            if op == 'dask_sjoin':
                return sp.sjoin(ddf, o['right'], how=case.get('how', 'inner')).compute().drop(columns='client_').sort_values(['id', 'index_right'], kind='stable')
            if op == 'dask_measures':
                return (ddf['poly'].bounds.compute(), ddf['poly'].area.compute(), ddf['poly'].length.compute(),
                        np.array(ddf['poly'].total_bounds), ddf.geometry.intersects_bounds(box).compute())
            # rows with equal Hilbert distance leave Dask's shuffle in no particular order (C09 leaves ties open): rows are
            # compared after a stable sort on (distance, id), positions dropped
            r = ddf.pack_partitions(npartitions=case.get('out_partitions', 3), p=10).compute().drop(columns='client_')
            return (list(r.index), r.reset_index().sort_values(['hilbert_distance', 'id'], kind='stable').reset_index(drop=True))
    elif op in ('to_parquet', 'read_parquet'):
        def prepare():
            left, right, line = frames()
            o = {'pdf': left.set_geometry('pt')}
            if op == 'read_parquet':
                path = os.path.join(tmp, 'src.parq')
                if not os.path.exists(path):
                    dd.from_pandas(o['pdf'], npartitions=npart, sort=False).pack_partitions_to_parquet(
                        path, npartitions=case.get('out_partitions', 5), p=10, _retry_args=RA)
                o['path'] = path
            return o

        def run(o, tag):
            fs = faultfs.FaultFS(delays=case.get('delays') if tag != 'ref' else None,
                                 every_delay=tuple(case['every_delay']) if case.get('every_delay') and tag != 'ref' else None)
            if op == 'read_parquet':
                r = read_parquet_dask(o['path'], filesystem=fs).compute()
                return r.reset_index().sort_values(['hilbert_distance', 'id'], kind='stable').reset_index(drop=True)
            path = os.path.join(tmp, f'out-{tag}')
            fmt = os.path.join(tmp, 'shared-tmp', '{uuid}', 'p{partition}') if case.get('external') else None
            dd.from_pandas(o['pdf'].assign(client_=tag), npartitions=npart, sort=False).pack_partitions_to_parquet(path, filesystem=fs, npartitions=case.get('out_partitions', 5), p=10,
                                                tempdir_format=fmt, _retry_args=RA)
            listing = sorted((nm, os.path.isdir(os.path.join(path, nm))) for nm in os.listdir(path))
            back = read_parquet_dask(path).compute().drop(columns='client_')
            leftovers = []
            if fmt:
                for r_, _d, fs_ in os.walk(os.path.join(tmp, 'shared-tmp')):
                    leftovers.extend(fs_)
            return (listing, list(back.index), back.reset_index().sort_values(['hilbert_distance', 'id'], kind='stable').reset_index(drop=True), sorted(leftovers) if not case.get('clients', 1) > 1 else [])
    else:
        raise ValueError(op)
    return prepare, run


def _drop_dask_pools():
    """Dask keeps one thread pool per (calling thread, num_workers); the pools of finished client threads stay around and
    dozens of idle workers make every later case in the same interpreter several times slower (measured: 12 s -> 100 s)"""
    try:
        from dask import threaded
        for d in list(threaded.pools.values()):
            for p in list(d.values()):
                p.shutdown(wait=True)
        threaded.pools.clear()
        if threaded.default_pool is not None:
            threaded.default_pool.shutdown(wait=True)
            threaded.default_pool = None
    except Exception:  # noqa: BLE001  (housekeeping only)
        pass


def evaluate(case):
    import dask
    import numba
    if int(os.environ.get('NUMBA_NUM_THREADS', '1')) < 16:
        # needs an interpreter whose numba thread pool was launched with 16 threads
        return outcome(rejected=True)
    op = case['op']
    B = ['C18', op]
    tmp = tempfile.mkdtemp(prefix='vp_c18_')
    fails = []
    labels = [op, 'sched:' + case['scheduler'], f'workers{case["workers"]}', f'numba{case["numba_threads"]}', f'clients{case.get("clients", 1)}']
    old_switch = sys.getswitchinterval()
    try:
        prepare, run = _ops(case, tmp)
        # ---- reference: synchronous, one numba thread, no delays
        numba.set_num_threads(1)
        with dask.config.set(scheduler='synchronous'):
            ref = _canon(lib(B + ['reference-run'], run, prepare(), 'ref'))
        # ---- perturbed runs
        numba.set_num_threads(case['numba_threads'])
        if case.get('switch'):
            sys.setswitchinterval(1e-6)
        cfg = {'scheduler': case['scheduler']}
        if case['scheduler'] == 'threads':
            cfg['num_workers'] = case['workers']
        with dask.config.set(**cfg):
            clients = case.get('clients', 1)
            if clients <= 1:
                for rep in range(2):
                    got = _canon(lib(B + ['perturbed-run'], run, prepare(), f'p{rep}'))
                    if got != ref:
                        fails.append((B + ['differs-from-serial', 'sched:' + case['scheduler']], _describe(ref, got, case)))
                        break
            else:
                shared = prepare()
                results = [None] * clients
                errors = [None] * clients
                barrier = threading.Barrier(clients)

                def client(i):
                    try:
                        barrier.wait(timeout=60)
                        results[i] = _canon(run(shared, f'c{i}'))
                    except BaseException as e:  # noqa: BLE001
                        errors[i] = e
                ths = [threading.Thread(target=client, args=(i,)) for i in range(clients)]
                for t in ths:
                    t.start()
                for t in ths:
                    t.join(timeout=600)
                if any(t.is_alive() for t in ths):
                    fails.append((B + ['concurrent-clients', 'hang'], f'{case}'))
                for i in range(clients):
                    if errors[i] is not None:
                        fails.append((B + ['concurrent-clients', 'raises', type(errors[i]).__name__], f'client {i}: {type(errors[i]).__name__}: {str(errors[i])[:300]}'))
                        break
                    if results[i] != ref:
                        fails.append((B + ['concurrent-clients', 'differs-from-serial'], _describe(ref, results[i], case)))
                        break
        nt = (case['scheduler'] == 'threads' and case['workers'] >= 2 and op.startswith(('dask', 'pack', 'to_parquet', 'read_parquet'))) or \
             (case['numba_threads'] >= 2 and op in ('kernels', 'cx', 'cx_sindex', 'sjoin')) or case.get('clients', 1) >= 2
        return outcome(failures=fails, labels=labels, nontrivial=nt)
    finally:
        sys.setswitchinterval(old_switch)
        numba.set_num_threads(1)
        shutil.rmtree(tmp, ignore_errors=True)
        _drop_dask_pools()


def _describe(ref, got, case):
    if type(ref) is tuple and type(got) is tuple and len(ref) == len(got):
        bad = [i for i, (a, b) in enumerate(zip(ref, got)) if a != b]
        return f'components {bad} differ; case={case}'
    return f'results differ; case={case}'


# ----------------------------------------------------------------------------- strategy
@st.composite
def _case(draw):
    op = draw(st.sampled_from(['kernels', 'kernels', 'cx', 'cx_sindex', 'sjoin', 'dask_cx', 'dask_sjoin', 'dask_measures',
                               'pack_partitions', 'to_parquet', 'to_parquet', 'read_parquet']))
    big = op in ('kernels',)
    case = {'op': op, 'data_seed': draw(st.integers(0, 10 ** 6)),
            'n': (draw(st.sampled_from([20000, 50000])) + draw(st.integers(0, 37))) if big else draw(st.sampled_from([60, 200, 1000])),
            'order': draw(st.sampled_from(['random', 'sorted-x', 'sorted-y-desc'])),
            'scheduler': draw(st.sampled_from(['threads', 'threads', 'threads', 'synchronous'])),
            'workers': draw(st.sampled_from([1, 2, 3, 4, 8, 16])),
            'numba_threads': draw(st.sampled_from([1, 2, 4, 16])),
            'switch': draw(st.booleans()),
            'clients': draw(st.sampled_from([1, 1, 2, 4, 8, 12])),
            'npartitions': draw(st.integers(1, 8)), 'out_partitions': draw(st.integers(2, 8)),
            'geom': draw(st.sampled_from(['pt', 'poly'])), 'how': draw(st.sampled_from(['inner', 'left']))}
    if op in ('to_parquet', 'read_parquet'):
        case['n'] = draw(st.sampled_from([40, 120]))
        case['clients'] = draw(st.sampled_from([1, 2, 3]))
        case['external'] = draw(st.booleans())
        if draw(st.booleans()):
            case['every_delay'] = [draw(st.integers(2, 9)), draw(st.integers(1, 30)) / 10000.0]
        else:
            case['delays'] = {str(draw(st.integers(1, 150))): draw(st.integers(1, 50)) / 10000.0 for _ in range(draw(st.integers(0, 6)))}
    if op == 'pack_partitions':
        case['clients'] = draw(st.sampled_from([1, 2, 3]))
    return case


def strategy(tier):
    return _case()
