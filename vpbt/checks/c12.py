"""C12 - stored partition bounds are the true extents; pruning never loses a row.

Reproducer of the deviation this check reports on the pinned tree (bucket C12/<writer>/prune/nan-extent-partition-kept;
PREDICATES below gives the case predicate for a known_findings.json listing):

  G3  read_parquet_dask(bounds=box) keeps every partition whose recorded extent is NaN (a partition without rows, or whose
      rows are all missing/empty in the active geometry), although such an extent overlaps no box
        import numpy as np, dask.dataframe as dd, spatialpandas as sp
        from spatialpandas.geometry import PointArray
        from spatialpandas.io import read_parquet_dask
        pts = PointArray(np.array([[0., 0.], [np.nan, np.nan], [9., 9.]]))      # row 1 is an empty point
        dd.from_pandas(sp.GeoDataFrame({'g': pts, 'rid': [0, 1, 2]}), npartitions=3).to_parquet('/tmp/g3.parq')
        r = read_parquet_dask('/tmp/g3.parq', bounds=(100, 100, 101, 101))      # box far away from everything
        print(r.npartitions, r._partition_bounds['g'].values.tolist(), r.compute().rid.tolist())
        # 1 [[nan, nan, nan, nan]] [1]      expected: no partition kept, no row
      (the filter is written as not(x1 < bx0 or y1 < by0 or x0 > bx1 or y0 > by1); every comparison with NaN is False)
"""
import json
import os
import shutil
import tempfile

import numpy as np
from hypothesis import strategies as st

from .. import dasktools, gen, model
from ..harness import lib, outcome

PROPERTY = 'C12'
LEVEL = 'exploration'
RULE = ('E1 (Hypothesis): a frame of 2..24 rows with 1-3 geometry columns (7 kinds x 5 subtypes); every element is built from a '
        'drawn bounding box on a small lattice (0..14, widths 0..4, halves for float subtypes) so that extents of different '
        'rows and partitions touch, nest and coincide; missing and empty elements at drawn positions. Writer: '
        'DaskGeoDataFrame.to_parquet over a drawn composition of the rows into 1..16 partitions (empty partitions allowed), or '
        'pack_partitions_to_parquet(npartitions 1..16) of such a frame with a drawn active column; >= 11 partitions frequent '
        '(textual order part.10 < part.2). One dataset, or two datasets read through a list (drawn order) or a glob. '
        'geometry= drawn from {not given} + geometry columns. Checked for every loaded partition i (load order) and every '
        'geometry column: row "i" of the JSON in _common_metadata == total bounds (plain Python) of the rows that pyarrow finds in '
        'part.i.parquet; total bounds recomputed from the canonical elements of the rows of loaded partition i == row i of '
        '_partition_bounds[col] == row i of ddf[col].partition_bounds (exact, NaN-aware). 1-3 boxes with edges drawn from the row extents themselves, +-1/2, +-1, midpoints and far values '
        'or aimed at one written partition / row extent: sharing exactly one edge or one corner with it, lying inside it, degenerate '
        '(so boxes touch partition extents exactly, are reversed in x and/or y, or disjoint from everything): the partitions of '
        'read_parquet_dask(bounds=box) are exactly those whose recorded extent of the active column overlaps the closed '
        'normalised box, their rows are those of the unpruned partitions, every row whose own bbox overlaps the box (a superset '
        'of the rows that intersect it) is present, and the bounds afterwards (_partition_bounds[col], ddf[col].partition_bounds) '
        'are the kept rows of the recorded bounds re-indexed from 0, for every column. '
        'Non-trivial: >= 2 loaded partitions and a box that keeps a proper subset (possibly none) of them. distinct = distinct cases.')
RULE += (' Added after the seeded rounds: written datasets with a history: the path held another dataset before (removed or overwritten), or the frame written is a row filter of a frame carrying partition bounds.')
ASSUMPTIONS = ['pyarrow decodes the stored elements (canonical form) correctly',
               'coordinates are finite (an extent is either fully defined or NaN)',
               'a NaN extent (no row, or only missing/empty geometries) overlaps no box',
               'the active geometry is the geometry= argument, by default the first geometry column of the dataset',
               'frames handed to pack_partitions_to_parquet have >= 2 rows with distinct bbox centres in the active column']
BUDGET = {'quick': {'shards': 16, 'examples': 800, 'min_evaluations': 400},
          'thorough': {'shards': 16, 'examples': 16000, 'min_evaluations': 8000}}

GEOM_NAMES = ['ga', 'gb', 'gc']
RETRY = {'stop_max_attempt_number': 2}
BCOLS = ['x0', 'y0', 'x1', 'y1']


def _pred_nan_extent(case):
    """some geometry column has a missing/empty element, or some written partition may be empty"""
    if any(model.is_inert(g['kind'], e) for g in case['geoms'] for e in g['elements']):
        return True
    return any(0 in ds['sizes'] for ds in case['datasets'])


PREDICATES = {'nan_extent_possible': _pred_nan_extent}


# ----------------------------------------------------------------------------- helpers
def _overlaps(ext, box):
    """closed-box overlap of a recorded extent (x0,y0,x1,y1) with a normalised box; a NaN extent overlaps nothing"""
    if any(v != v for v in ext):
        return False
    x0, y0, x1, y1 = box
    return not (ext[2] < x0 or ext[3] < y0 or ext[0] > x1 or ext[1] > y1)


def _touches(ext, box):
    """overlap that exists only because an edge coincides"""
    if not _overlaps(ext, box):
        return False
    x0, y0, x1, y1 = box
    return ext[2] == x0 or ext[0] == x1 or ext[3] == y0 or ext[1] == y1


def _bounds_rows(df):
    """rows of a bounds frame as tuples of floats, or a string describing why it is not a bounds frame"""
    if df is None:
        return 'no bounds recorded'
    if [str(c) for c in df.columns] != BCOLS:
        return f'columns {list(df.columns)}'
    return [tuple(float(v) for v in row) for row in df[BCOLS].values.tolist()]


def _cmp_rows(got, exp):
    if isinstance(got, str):
        return got
    if len(got) != len(exp):
        return f'{len(got)} rows of bounds for {len(exp)} partitions'
    for i, (g, e) in enumerate(zip(got, exp)):
        if not model.same_row(g, e):
            return f'partition {i}: recorded {list(g)} but the rows stored there span {list(e)}'
    return None


def _rids(part):
    return tuple(int(v) for v in part['rid'].tolist())


def _subsequence(needles, hay):
    """indices into hay matching needles in order (greedy), or None"""
    out, pos = [], 0
    for nd in needles:
        while pos < len(hay) and hay[pos] != nd:
            pos += 1
        if pos == len(hay):
            return None
        out.append(pos)
        pos += 1
    return out


def _build_frame(case, rows, B):
    import spatialpandas as sp
    data = {}
    for name in case['order']:
        g = next((g for g in case['geoms'] if g['name'] == name), None)
        # a negative entry -(r+1) is a row that carries the geometry of row r but is marked (rid < 0) to be filtered out
        if g is not None:
            data[name] = lib(B + ['construct', g['kind']], model.build_array, g['kind'],
                             [g['elements'][r if r >= 0 else -r - 1] for r in rows], g['subtype'])
        elif name == 'rid':
            data[name] = np.array(rows, dtype=np.int64)
        else:
            data[name] = np.array([abs(r) * 0.5 for r in rows], dtype=np.float64)
    return lib(B + ['construct', 'frame'], sp.GeoDataFrame, data, geometry=case['input_geometry'])


def evaluate(case):
    import dask
    from pyarrow.parquet import read_metadata, read_table
    from spatialpandas.io import read_parquet_dask
    writer = case['writer']
    B = ['C12', writer]                 # writing and the metadata file: one mechanism per writer
    BR, BP = ['C12', 'read'], ['C12', 'prune']   # loading and pruning do not depend on the writer
    geoms = {g['name']: g for g in case['geoms']}
    gcols = [c for c in case['order'] if c in geoms]
    fails = []
    labels = ['writer:' + writer, f'geometry-columns:{len(gcols)}', f'datasets:{len(case["datasets"])}']
    nt = False
    root = tempfile.mkdtemp(prefix='vp_c12_')
    try:
        # ---- write
        paths = []
        for ds in case['datasets']:
            path = os.path.join(root, ds['name'])
            hist = ds.get('history') or {}
            okw = {}
            if hist.get('prior'):
                # history: this path held another dataset before (written, read and queried in this process), which is
                # then removed or overwritten; nothing of it may show in what is recorded / exposed for the new one
                rows0 = ds['rows'][::-1] if writer == 'to_parquet' else ds['rows'][::-1][:max(1, (len(ds['rows']) + 1) // 2)]
                sizes0 = ds['sizes'] if writer == 'to_parquet' else [len(rows0)]
                d0 = dasktools.ddf_from_sizes(_build_frame(case, rows0, B), sizes0)
                if writer == 'to_parquet':
                    lib(B + ['to_parquet'], d0.to_parquet, path)
                else:
                    lib(B + ['pack_partitions_to_parquet'], d0.pack_partitions_to_parquet, path, npartitions=ds['npartitions'],
                        p=case.get('p', 15), _retry_args=dict(RETRY))
                r0 = lib(BR + ['read_parquet_dask'], read_parquet_dask, path)
                lib(BR + ['series.partition_bounds'], lambda: [r0[c].partition_bounds for c in gcols])
                if hist['prior'] == 'rmtree':
                    shutil.rmtree(path)
                else:
                    okw = {'overwrite': True}
                labels.append('history:path-held-another-dataset(' + hist['prior'] + ')')
            if hist.get('filter'):
                # history: the frame written is a row filter of a frame that already carries partition bounds (because it
                # was read from parquet, or because its partition index was used); each partition of that parent ends
                # with one extra row, a copy of a row of the next partition, which the filter drops
                k = len(ds['sizes'])
                starts = [sum(ds['sizes'][:i]) for i in range(k)]
                rows2, sizes2 = [], []
                for i in range(k):
                    rows2 += ds['rows'][starts[i]:starts[i] + ds['sizes'][i]]
                    nxt = next((j % k for j in range(i + 1, i + k) if ds['sizes'][j % k]), None)
                    if ds['sizes'][i] and nxt is not None:
                        rows2.append(-ds['rows'][starts[nxt]] - 1)
                        sizes2.append(ds['sizes'][i] + 1)
                    else:
                        sizes2.append(ds['sizes'][i])
                big = dasktools.ddf_from_sizes(_build_frame(case, rows2, B), sizes2)
                if hist['filter'] == 'after-read':
                    src = os.path.join(root, 'src_' + ds['name'])
                    lib(B + ['to_parquet'], big.to_parquet, src)
                    big = lib(BR + ['read_parquet_dask'], read_parquet_dask, src, geometry=case['input_geometry'])
                else:
                    lib(['C12', 'partition_sindex'], lambda: big.partition_sindex)
                ddf = lib(['C12', 'filter'], lambda: big[big['rid'] >= 0])
                labels.append('history:filter-of-a-frame-with-bounds(' + hist['filter'] + ')')
            else:
                gdf = _build_frame(case, ds['rows'], B)
                ddf = dasktools.ddf_from_sizes(gdf, ds['sizes'])
            if ddf._meta.geometry.name != case['input_geometry']:
                raise RuntimeError('harness: active geometry of the input frame not as drawn')
            if writer == 'to_parquet':
                lib(B + ['to_parquet'], ddf.to_parquet, path, **okw)
            else:
                lib(B + ['pack_partitions_to_parquet'], ddf.pack_partitions_to_parquet, path, npartitions=ds['npartitions'],
                    p=case.get('p', 15), _retry_args=dict(RETRY), **okw)
            paths.append(path)
        how = case['read']['how']
        if how == 'single':
            target, ordered = paths[0], [0]
        elif how == 'list':
            ordered = list(case['read']['order'])
            target = [paths[j] for j in ordered]
        else:
            target = os.path.join(root, 'ds_*.parq')
            ordered = sorted(range(len(paths)), key=lambda j: case['datasets'][j]['name'])
        labels.append('read:' + how)
        gkw = {} if case['geometry'] is None else {'geometry': case['geometry']}
        active = case['geometry'] or gcols[0]
        labels.append('geometry=' + ('default' if case['geometry'] is None else ('first' if active == gcols[0] else 'other')))
        ctx = f'writer={writer} read={case["read"]} geometry={case["geometry"]} datasets=' + \
              str([{k: v for k, v in ds.items() if k != "rows"} for ds in case['datasets']])

        # ---- unpruned read: truth per loaded partition
        full = lib(BR + ['read_parquet_dask'], read_parquet_dask, target, **gkw)
        parts = list(lib(BR + ['compute-partitions'], lambda: dask.compute(*full.to_delayed())))
        k = len(parts)
        labels.append('loaded-partitions:1' if k == 1 else ('loaded-partitions:2-10' if k <= 10 else 'loaded-partitions:11+'))
        truth = {c: [model.ref_total_bounds(geoms[c]['kind'], model.to_canonical(p[c].array)) for p in parts] for c in gcols}
        if any(all(v != v for v in t) for t in truth[active]):
            labels.append('nan-extent-partition(active)')

        # ---- the metadata file(s): row i of the JSON against the rows stored in file part.i.parquet (read with pyarrow only)
        meta_problem = None
        nfiles = 0
        for j in ordered:
            md = read_metadata(os.path.join(paths[j], '_common_metadata')).metadata
            if b'spatialpandas' not in md:
                meta_problem = ('malformed', 'no spatialpandas key in _common_metadata')
                break
            pb = json.loads(md[b'spatialpandas'].decode('utf')).get('partition_bounds', {})
            files = [f for f in os.listdir(paths[j]) if f.startswith('part.') and f.endswith('.parquet')]
            nfiles += len(files)
            file_rids = {}
            for c in gcols:
                cols = pb.get(c)
                if cols is None or sorted(cols) != sorted(BCOLS):
                    meta_problem = ('malformed', f'bounds of column {c}: {None if cols is None else sorted(cols)}')
                    break
                if sorted(cols['x0'], key=str) != sorted((str(i) for i in range(len(files))), key=str):
                    meta_problem = ('malformed', f'column {c}: rows {sorted(cols["x0"])} for {len(files)} part files')
                    break
                for i in range(len(files)):
                    if i not in file_rids:
                        file_rids[i] = read_table(os.path.join(paths[j], f'part.{i}.parquet'), columns=['rid']).column('rid').to_pylist()
                    rids = file_rids[i]
                    exp = model.ref_total_bounds(geoms[c]['kind'], model.canon_elements([geoms[c]['elements'][r] for r in rids]))
                    got = tuple(float(cols[b][str(i)]) for b in BCOLS)
                    if not model.same_row(got, exp):
                        meta_problem = ('differs-from-stored-rows', f'column {c}, dataset {case["datasets"][j]["name"]}: row "{i}" is {list(got)} '
                                        f'but part.{i}.parquet holds rows {rids} spanning {list(exp)}')
                        break
                if meta_problem:
                    break
            if meta_problem:
                break
        bounds_ok = True
        if meta_problem:
            fails.append((B + ['metadata-file', meta_problem[0]], f'{meta_problem[1]}; {ctx}'))
            bounds_ok = False
        elif nfiles != k:
            fails.append((BR + ['partition-count'], f'{nfiles} part files but {k} partitions loaded; {ctx}'))
            bounds_ok = False
        # ---- what read_parquet_dask exposes
        recorded = {}
        if bounds_ok:
            for c in gcols:
                df = full._partition_bounds.get(c)
                recorded[c] = _bounds_rows(df)
                err = _cmp_rows(recorded[c], truth[c])
                if not err and [int(v) for v in df.index.tolist()] != list(range(k)):
                    err = f'index {df.index.tolist()} is not 0..{k - 1}'
                if err:
                    fails.append((BR + ['_partition_bounds', 'differs-from-stored-rows'], f'column {c}: {err}; {ctx}'))
                    bounds_ok = False
                    break
        if bounds_ok:
            for c in gcols:
                df = lib(BR + ['series.partition_bounds'], lambda c=c: full[c].partition_bounds)
                err = _cmp_rows(_bounds_rows(df), truth[c])
                if not err and [int(v) for v in df.index.tolist()] != list(range(k)):
                    err = f'index {df.index.tolist()} is not 0..{k - 1}'
                if err:
                    fails.append((BR + ['series.partition_bounds', 'differs-from-stored-rows'], f'column {c}: {err}; {ctx}'))
                    bounds_ok = False
                    break

        # ---- pruning
        full_rids = [_rids(p) for p in parts]
        row_boxes = [model.ref_bounds(geoms[active]['kind'], model.to_canonical(p[active].array)) for p in parts]
        if bounds_ok:
            seen = set()
            for box in case['boxes']:
                nbox = [min(box[0], box[2]), min(box[1], box[3]), max(box[0], box[2]), max(box[1], box[3])]
                expected = [i for i in range(k) if _overlaps(recorded[active][i], nbox)]
                if box != nbox:
                    labels.append('box:reversed')
                if nbox[0] == nbox[2] or nbox[1] == nbox[3]:
                    labels.append('box:degenerate')
                if any(_touches(recorded[active][i], nbox) for i in range(k)):
                    labels.append('box:touches-a-partition-extent')
                labels.append('box:keeps-none' if not expected else ('box:keeps-all' if len(expected) == k else 'box:keeps-some'))
                if k >= 2 and len(expected) < k:
                    nt = True
                bctx = f'box={box} active={active} recorded={[list(r) for r in recorded[active]]}; {ctx}'
                pr = lib(BP + ['read_parquet_dask'], read_parquet_dask, target, bounds=tuple(box), **gkw)
                pparts = list(lib(BP + ['compute-partitions'], lambda: dask.compute(*pr.to_delayed())))
                got_rids = [_rids(p) for p in pparts]
                if got_rids == [()] and not len(pr._partition_bounds.get(active, ())):
                    kept = []           # nothing kept: the library answers with one row-less placeholder partition
                elif got_rids == [full_rids[i] for i in expected]:
                    kept = expected
                else:
                    kept = _subsequence(got_rids, full_rids)
                if kept != expected:
                    extra = [] if kept is None else [i for i in kept if i not in expected]
                    if kept is None:
                        what = 'kept-partitions-are-not-partitions-of-the-dataset'
                    elif [i for i in expected if i not in kept]:
                        what = 'overlapping-partition-dropped'
                    elif all(all(v != v for v in recorded[active][i]) for i in extra):
                        what = 'nan-extent-partition-kept'
                        labels.append('pruning-kept-a-nan-extent-partition')
                    else:
                        what = 'non-overlapping-partition-kept'
                    if what not in seen:
                        seen.add(what)
                        fails.append((BP + [what], f'expected partitions {expected} kept, got rows {got_rids} = partitions {kept}; {bctx}'))
                    if what != 'nan-extent-partition-kept':
                        continue
                # bounds reported afterwards: those of the partitions kept, re-indexed from 0, for every column
                for c in gcols:
                    exp_rows = [recorded[c][i] for i in kept]
                    for where, df in (('_partition_bounds', pr._partition_bounds.get(c)),
                                      ('series.partition_bounds', lib(BP + ['series.partition_bounds'], lambda c=c: pr[c].partition_bounds)
                                       if kept else None)):
                        if where == 'series.partition_bounds' and not kept:
                            continue
                        rows = _bounds_rows(df)
                        err = None
                        if isinstance(rows, str):
                            err = rows
                        elif len(rows) != len(exp_rows) or any(not model.same_row(a, e) for a, e in zip(rows, exp_rows)):
                            err = f'bounds {[list(r) for r in rows]} expected those of partitions {kept}: {[list(r) for r in exp_rows]}'
                        elif [int(v) for v in df.index.tolist()] != list(range(len(kept))):
                            err = f'index {df.index.tolist()} not re-indexed from 0'
                        if err:
                            if 'bounds-after-pruning' not in seen:
                                seen.add('bounds-after-pruning')
                                fails.append((BP + ['bounds-after-pruning', where], f'column {c}: {err}; {bctx}'))
                            break
                # hence every row that intersects the box is present (necessary condition used: its bbox overlaps the box)
                present = set(r for rr in got_rids for r in rr)
                lost = [rid for rr, bbs in zip(full_rids, row_boxes) for rid, rb in zip(rr, bbs)
                        if _overlaps(rb, nbox) and rid not in present]
                if lost and 'intersecting-row-lost' not in seen:
                    seen.add('intersecting-row-lost')
                    fails.append((BP + ['intersecting-row-lost'], f'rows {lost} intersect the box but are absent; {bctx}'))
    finally:
        shutil.rmtree(root, ignore_errors=True)
    for g in case['geoms']:
        labels += ['kind:' + g['kind'], 'subtype:' + g['subtype']]
    if any(0 in ds['sizes'] for ds in case['datasets']):
        labels.append('empty-input-partition')
    return outcome(failures=fails, labels=sorted(set(labels)), nontrivial=nt)


# ----------------------------------------------------------------------------- strategy
def _element(kind, x, y, w, h):
    """an element of `kind` whose bounding box is exactly [x, x+w] x [y, y+h]"""
    X, Y = x + w, y + h
    rect = [x, y, X, y, X, Y, x, Y, x, y]
    if kind == 'point':
        return [x, y]
    if kind == 'multipoint':
        return [x, y, X, Y] if (w or h) else [x, y]
    if kind == 'line':
        return [x, Y, X, y]
    if kind == 'ring':
        return rect
    if kind == 'multiline':
        return [[x, y, X, y], [X, Y, x, Y]]
    if kind == 'polygon':
        return [rect]
    return [[rect]]


def _centre(kind, el):
    b = model.ref_bounds_flat(model.flat_coords(kind, el))
    return ((b[0] + b[2]) / 2, (b[1] + b[3]) / 2)


@st.composite
def _geom_column(draw, n, name, must_spread):
    kind = draw(st.sampled_from(model.KINDS))
    subtype = draw(gen.subtypes)
    half = subtype.startswith('float') and draw(st.booleans())
    inert_rate = draw(st.sampled_from([0, 0, 6, 3]))
    els = []
    for _ in range(n):
        if inert_rate and draw(st.integers(0, inert_rate)) == 0:
            if draw(st.booleans()):
                els.append(None)
            elif kind == 'point':
                els.append([float('nan'), float('nan')] if subtype.startswith('float') else None)
            else:
                els.append([])
            continue
        x, y = draw(st.integers(0, 14)), draw(st.integers(0, 14))
        w, h = (0, 0) if kind == 'point' else (draw(st.integers(0, 4)), draw(st.integers(0, 4)))
        if half and draw(st.booleans()):
            x, y = x + 0.5, y + 0.5
        els.append(_element(kind, x, y, w, h))
    for lo in must_spread:
        # pack_partitions needs two rows with distinct bbox centres in the column it sorts by
        cs = {_centre(kind, e) for e in els[lo[0]:lo[1]] if not model.is_inert(kind, e)}
        if len(cs) < 2:
            els[lo[0]] = _element(kind, 1, 2, 0, 0)
            els[lo[0] + 1] = _element(kind, 9, 5, 0, 0)
    return {'name': name, 'kind': kind, 'subtype': subtype, 'elements': els}


def _composition(draw, n, k, allow_empty):
    if not allow_empty and n >= k:
        cuts = sorted(draw(st.lists(st.integers(1, n - 1), min_size=k - 1, max_size=k - 1, unique=True))) if k > 1 else []
    else:
        cuts = sorted(draw(st.lists(st.integers(0, n), min_size=k - 1, max_size=k - 1)))
    edges = [0] + cuts + [n]
    return [b - a for a, b in zip(edges[:-1], edges[1:])]


def _candidate_extents(writer, datasets, ag):
    """defined extents in the active column that boxes are aimed at: the written partitions (to_parquet), single rows (pack)"""
    kind, els = ag['kind'], ag['elements']
    out = []
    if writer == 'to_parquet':
        for ds in datasets:
            pos = 0
            for sz in ds['sizes']:
                rows = ds['rows'][pos:pos + sz]
                pos += sz
                b = model.ref_total_bounds(kind, [els[r] for r in rows])
                if b[0] == b[0]:
                    out.append(b)
    else:
        out = [model.ref_bounds_flat(model.flat_coords(kind, e)) for e in els if not model.is_inert(kind, e)]
    return out


@st.composite
def _case(draw):
    writer = draw(st.sampled_from(['to_parquet', 'to_parquet', 'pack']))
    two = draw(st.integers(0, 3)) == 0
    n = draw(st.one_of(st.integers(4 if two else 2, 12), st.integers(12, 24)))
    ng = draw(st.sampled_from([1, 2, 2, 3]))
    names = GEOM_NAMES[:ng]
    input_geometry = draw(st.sampled_from(names))
    K = st.sampled_from([1, 2, 3, 4, 6, 9, 11, 12, 13, 16, 16])
    if two:
        cut = draw(st.integers(2, n - 2))
        row_sets = [list(range(cut)), list(range(cut, n))]
        ds_names = ['ds_0.parq', 'ds_1.parq'] if draw(st.booleans()) else ['ds_1.parq', 'ds_0.parq']
    else:
        row_sets, ds_names = [list(range(n))], ['ds_0.parq']
    spread = [(rs[0], rs[-1] + 1) for rs in row_sets] if writer == 'pack' else []
    geoms = [draw(_geom_column(n, nm, spread if nm == input_geometry else [])) for nm in names]
    datasets = []
    for rs, nm in zip(row_sets, ds_names):
        m = len(rs)
        if writer == 'to_parquet':
            k = draw(K)
            ds = {'name': nm, 'rows': rs, 'sizes': _composition(draw, m, k, draw(st.integers(0, 2)) == 0)}
        else:
            ds = {'name': nm, 'rows': rs, 'sizes': _composition(draw, m, draw(st.sampled_from([1, 2, 3, 5])), draw(st.integers(0, 3)) == 0),
                  'npartitions': draw(K)}
        h = draw(st.sampled_from([None, None, None, {'prior': 'rmtree'}, {'prior': 'overwrite'}, {'filter': 'after-read'}, {'filter': 'after-sindex'},
                                  {'prior': 'overwrite', 'filter': 'after-read'}]))
        if h:
            ds['history'] = h
        datasets.append(ds)
    order = list(draw(st.permutations(names + ['rid'] + (['v'] if draw(st.booleans()) else []))))
    if two:
        read = draw(st.sampled_from([{'how': 'list', 'order': [0, 1]}, {'how': 'list', 'order': [1, 0]}, {'how': 'glob'}]))
    else:
        read = {'how': 'single'}
    geometry = draw(st.sampled_from([None] + names))
    active = geometry or [c for c in order if c in names][0]
    ag = next(g for g in geoms if g['name'] == active)
    flat = [v for e in ag['elements'] if not model.is_inert(ag['kind'], e) for v in model.flat_coords(ag['kind'], e)]
    extents = _candidate_extents(writer, datasets, ag)
    boxes = []
    for _ in range(draw(st.integers(1, 3))):
        mode = draw(st.sampled_from(['touch', 'touch', 'touch', 'feature', 'feature', 'inside', 'far', 'all']))
        if mode == 'far' or not extents:
            b = [100.0, 100.0, 101.0 + draw(st.integers(0, 3)), 103.0]
        elif mode == 'all':
            b = [-1.0, -1.0, 30.0, 30.0]
        elif mode == 'feature':
            b = draw(gen.feature_boxes(flat, 1, allow_degenerate=True))
        else:
            ex0, ey0, ex1, ey1 = draw(st.sampled_from(extents))
            if mode == 'inside':
                b = [ex0, ey0, draw(st.sampled_from([ex0, ex1, (ex0 + ex1) / 2])), draw(st.sampled_from([ey0, ey1, (ey0 + ey1) / 2]))]
            else:
                d = draw(st.sampled_from([0, 0.5, 1, 3]))
                lo, hi = draw(st.sampled_from([0, 0.5, 2])), draw(st.sampled_from([0, 0.5, 2]))
                side = draw(st.sampled_from(['left', 'right', 'bottom', 'top', 'corner']))
                if side == 'right':
                    b = [ex1, ey0 - lo, ex1 + d, ey1 + hi]
                elif side == 'left':
                    b = [ex0 - d, ey0 - lo, ex0, ey1 + hi]
                elif side == 'top':
                    b = [ex0 - lo, ey1, ex1 + hi, ey1 + d]
                elif side == 'bottom':
                    b = [ex0 - lo, ey0 - d, ex1 + hi, ey0]
                else:
                    cx, sx = draw(st.sampled_from([(ex0, -1), (ex1, 1)]))
                    cy, sy = draw(st.sampled_from([(ey0, -1), (ey1, 1)]))
                    b = [cx, cy, cx + sx * d, cy + sy * d]
        b = [float(v) for v in b]
        if draw(st.booleans()):
            b = [b[2], b[1], b[0], b[3]]
        if draw(st.booleans()):
            b = [b[0], b[3], b[2], b[1]]
        boxes.append(b)
    case = {'writer': writer, 'geoms': geoms, 'order': order, 'input_geometry': input_geometry, 'datasets': datasets,
            'read': read, 'geometry': geometry, 'boxes': boxes}
    if writer == 'pack':
        case['p'] = draw(st.sampled_from([15, 15, 10, 4]))
    return case


def strategy(tier):
    return _case()
