"""E4: counting / fault-raising / stale-answering / delaying fsspec filesystem.

Handed to the library through its public `filesystem=` argument (validate_coerce_filesystem passes instances through),
so pyarrow's own reads inside the call go through it as well. Every invocation of a wrapped primitive is a numbered
position, nested ones included (e.g. the `info` performed inside fsspec's `exists`, whose exception `exists` swallows
and turns into the answer False - so a transient fault of an existence check reaches the library as a stale negative
answer through fsspec's real code, not through a fabricated answer).

plan: {position: kind}
  'oserror'  raise OSError before acting
  'fnf'      raise FileNotFoundError before acting
  'after'    act, then raise OSError   (the ambiguous 'failed after success' that makes retry idempotence matter)
  'stale'    ls/find answer without their last entry
delays: {position: seconds} sleep before acting (C18)
"""
import sys
import threading
import time

from fsspec.implementations.local import LocalFileSystem

OPS = ('open', 'ls', 'find', 'info', 'exists', 'isfile', 'isdir', 'makedirs', 'mkdir', 'rm', 'rm_file', 'mv',
       'invalidate_cache', 'lexists', 'islink')
MUTATING = ('open', 'makedirs', 'mkdir', 'rm', 'rm_file', 'mv')
LISTING = ('ls', 'find')


def _site():
    """innermost function of spatialpandas/dask.py or io/parquet.py on the stack (the library call site)"""
    f = sys._getframe(2)
    while f is not None:
        fn = f.f_code.co_filename
        if fn.endswith('spatialpandas/dask.py') or fn.endswith('spatialpandas/io/parquet.py'):
            return f.f_code.co_name
        f = f.f_back
    return 'outside'


class FaultFS(LocalFileSystem):
    cachable = False

    def __init__(self, plan=None, delays=None, every_delay=None, **kw):
        super().__init__(**kw)
        # positions are integers (k-th call) or symbolic 'name@site#occ' (occ-th call of that primitive chain from that
        # library function), which stays meaningful when the library's call sequence changes
        self.plan = {int(k): v for k, v in (plan or {}).items() if not isinstance(k, str) or k.isdigit()}
        self.sym = {k: v for k, v in (plan or {}).items() if isinstance(k, str) and not k.isdigit()}
        self.occ = {}
        self.delays = {int(k): v for k, v in (delays or {}).items()}
        self.every_delay = every_delay        # (modulus, seconds)
        self.count = 0
        self.log = []            # (n, op, chain, path tail, site)
        self.fired = []          # (n, op, chain, kind, site)
        self.sticky = {}
        self.armed = True
        self._tl = threading.local()
        self._lock = threading.Lock()

    def _chain(self):
        return getattr(self._tl, 'chain', ())


from fsspec.spec import AbstractFileSystem

# isdir / isfile: fsspec's GENERIC implementations (used by most remote filesystems) go through info() and answer False
# on any OSError, whereas LocalFileSystem asks os.path directly. The generic ones are used here, so that a transient
# failure of the nested info() reaches the library as a stale negative answer of isdir()/isfile() through fsspec's own
# code - the same way exists() behaves. A fault planned on isdir/isfile themselves still raises.
GENERIC = {'isdir': AbstractFileSystem.isdir, 'isfile': AbstractFileSystem.isfile}


def _make(op):
    base = GENERIC.get(op) or getattr(LocalFileSystem, op)

    def wrapper(self, *a, **k):
        if not self.armed:
            return base(self, *a, **k)
        with self._lock:
            self.count += 1
            n = self.count
        chain = self._chain()
        name = '<'.join((op,) + chain[::-1])       # e.g. 'info<exists'
        site = _site()
        tail = str(a[0])[-48:] if a else ''
        self.log.append((n, op, name, tail, site))
        d = self.delays.get(n)
        if d is None and self.every_delay and n % self.every_delay[0] == 0:
            d = self.every_delay[1]
        if d:
            time.sleep(d)
        kind = self.plan.get(n)
        if self.sym:
            with self._lock:
                o = self.occ[(name, site)] = self.occ.get((name, site), 0) + 1
            kind = self.sym.get(f'{name}@{site}#{o}', kind)
        key = (name, str(a[0]) if a else '')
        if kind is not None and '*' in str(kind):
            # sticky fault: this primitive on this path fails the next r times it is invoked
            kind, r = kind.split('*')
            self.sticky[key] = [kind, int(r) - 1]
        elif kind is None and self.sticky.get(key, [None, 0])[1] > 0:
            kind = self.sticky[key][0]
            self.sticky[key][1] -= 1
        self._tl.chain = chain + (op,)
        try:
            if kind == 'oserror':
                self.fired.append((n, op, name, kind, site))
                raise OSError(f'injected fault #{n} before {op}')
            if kind == 'fnf':
                self.fired.append((n, op, name, kind, site))
                raise FileNotFoundError(f'injected fault #{n} before {op}')
            r = base(self, *a, **k)
            if kind == 'after':
                self.fired.append((n, op, name, kind, site))
                if op == 'open':
                    try:
                        r.close()
                    except Exception:  # noqa: BLE001
                        pass
                raise OSError(f'injected fault #{n} after {op} succeeded')
            if kind == 'stale' and op in LISTING and r:
                self.fired.append((n, op, name, kind, site))
                if isinstance(r, dict):
                    r = dict(list(r.items())[:-1])
                else:
                    r = list(r)[:-1]
            return r
        finally:
            self._tl.chain = chain
    wrapper.__name__ = op
    return wrapper


for _op in OPS:
    setattr(FaultFS, _op, _make(_op))


def kinds_for(op):
    ks = ['oserror', 'fnf']
    if op in MUTATING:
        ks.append('after')
    if op in LISTING:
        ks.append('stale')
    return ks
