"""Exact reference geometry in Python integers, algorithmically different from the implementation.

All public functions take coordinates that are ints or dyadic rationals with <= 3 fractional bits;
they are scaled by 8 to Python ints first (I()), so every predicate is exact.

  segment vs closed box : separating-axis test (x, y, and the segment normal)       [impl: 4 edge tests]
  point on segment      : zero cross product + bounding interval
  point vs ring         : on-boundary test, then even-odd crossing number            [impl: winding number]
  polygon vs box        : some ring segment meets the box, else one corner is 'in'
"""
from fractions import Fraction

SCALE = 8


def I(v):
    """exact scaling to int; raises if v is not a multiple of 1/8"""
    if isinstance(v, int):
        return v * SCALE
    w = v * SCALE
    iw = int(w)
    if iw != w:
        raise ValueError(f'coordinate {v!r} not representable on the 1/{SCALE} lattice')
    return iw


def IL(flat):
    return [I(v) for v in flat]


def cross(ax, ay, bx, by, cx, cy):
    return (bx - ax) * (cy - ay) - (by - ay) * (cx - ax)


def sgn(v):
    return (v > 0) - (v < 0)


def norm_box(b):
    x0, y0, x1, y1 = b
    if x1 < x0:
        x0, x1 = x1, x0
    if y1 < y0:
        y0, y1 = y1, y0
    return (x0, y0, x1, y1)


def pt_in_box(x, y, b):
    return b[0] <= x <= b[2] and b[1] <= y <= b[3]


def seg_box(ax, ay, bx, by, b):
    x0, y0, x1, y1 = b
    if max(ax, bx) < x0 or min(ax, bx) > x1 or max(ay, by) < y0 or min(ay, by) > y1:
        return False
    if ax == bx and ay == by:
        return True
    s = [sgn(cross(ax, ay, bx, by, cx, cy)) for cx, cy in ((x0, y0), (x1, y0), (x1, y1), (x0, y1))]
    return not (all(v > 0 for v in s) or all(v < 0 for v in s))


def pts_of(c):
    return list(zip(c[0::2], c[1::2]))


def line_box(c, b):
    """c: int flat coords of one polyline; b: int normalised box"""
    p = pts_of(c)
    if not p:
        return False
    if len(p) == 1:
        return pt_in_box(p[0][0], p[0][1], b)
    return any(seg_box(a[0], a[1], q[0], q[1], b) for a, q in zip(p[:-1], p[1:]))


def on_seg(px, py, ax, ay, bx, by):
    return (cross(ax, ay, bx, by, px, py) == 0 and min(ax, bx) <= px <= max(ax, bx)
            and min(ay, by) <= py <= max(ay, by))


def pt_line(px, py, c):
    p = pts_of(c)
    if not p:
        return False
    if len(p) == 1:
        return p[0] == (px, py)
    return any(on_seg(px, py, a[0], a[1], q[0], q[1]) for a, q in zip(p[:-1], p[1:]))


def pt_ring(px, py, c):
    """'in' | 'on' | 'out' for a closed ring, even-odd rule, exact"""
    p = pts_of(c)
    if not p:
        return 'out'
    if pt_line(px, py, c):
        return 'on'
    inside = False
    for (ax, ay), (bx, by) in zip(p[:-1], p[1:]):
        if (ay > py) != (by > py):
            den = by - ay
            v = (ax - px) * den + (py - ay) * (bx - ax)
            if (v > 0) if den > 0 else (v < 0):
                inside = not inside
    return 'in' if inside else 'out'


def pt_poly(px, py, rings):
    """rings[0] shell, rings[1:] holes (holes strictly inside, disjoint)"""
    st = [pt_ring(px, py, r) for r in rings]
    if 'on' in st:
        return 'on'
    if not st or st[0] != 'in':
        return 'out'
    return 'out' if 'in' in st[1:] else 'in'


def pt_multipoly(px, py, polys):
    st = [pt_poly(px, py, rings) for rings in polys]
    if 'on' in st:
        return 'on'
    return 'in' if 'in' in st else 'out'


def poly_box(rings, b):
    if any(line_box(r, b) for r in rings):
        return True
    if not rings or len(rings[0]) < 6:
        return False
    return pt_poly(b[0], b[1], rings) == 'in'


# ----------------------------------------------------------------------------- element-level API (unscaled input)
def elem_intersects_box(kind, el, box):
    """closed element vs closed box; el in model encoding; box any corner order; exact."""
    if el is None:
        return False
    b = norm_box(tuple(I(v) for v in box))
    if kind == 'point':
        if any(isinstance(v, float) and v != v for v in el):
            return False
        return pt_in_box(I(el[0]), I(el[1]), b)
    if kind == 'multipoint':
        c = IL(el)
        return any(pt_in_box(x, y, b) for x, y in pts_of(c))
    if kind in ('line', 'ring'):
        return line_box(IL(el), b)
    if kind == 'multiline':
        return any(line_box(IL(p), b) for p in el)
    if kind == 'polygon':
        return poly_box([IL(r) for r in el], b)
    if kind == 'multipolygon':
        return any(poly_box([IL(r) for r in poly], b) for poly in el)
    raise ValueError(kind)


def point_vs_shape(px, py, kind, el):
    """True / False / 'on' (polygon ring boundary: outside the guarantee)"""
    if el is None:
        return False
    x, y = I(px), I(py)
    if kind == 'point':
        return (I(el[0]), I(el[1])) == (x, y)
    if kind == 'multipoint':
        return (x, y) in pts_of(IL(el))
    if kind in ('line', 'ring'):
        return pt_line(x, y, IL(el))
    if kind == 'multiline':
        return any(pt_line(x, y, IL(p)) for p in el)
    if kind == 'polygon':
        r = pt_poly(x, y, [IL(r) for r in el]) if el else 'out'
    elif kind == 'multipolygon':
        r = pt_multipoly(x, y, [[IL(r) for r in poly] for poly in el])
    else:
        raise ValueError(kind)
    return 'on' if r == 'on' else (r == 'in')


# ----------------------------------------------------------------------------- validity checkers (ints)
def area2(c):
    p = pts_of(c)
    return sum(a[0] * q[1] - q[0] * a[1] for a, q in zip(p[:-1], p[1:]))


def segs_touch(s, t):
    (a, b), (c_, d) = s, t
    o1 = sgn(cross(*a, *b, *c_))
    o2 = sgn(cross(*a, *b, *d))
    o3 = sgn(cross(*c_, *d, *a))
    o4 = sgn(cross(*c_, *d, *b))
    if o1 != o2 and o3 != o4:
        return True
    return ((o1 == 0 and on_seg(*c_, *a, *b)) or (o2 == 0 and on_seg(*d, *a, *b))
            or (o3 == 0 and on_seg(*a, *c_, *d)) or (o4 == 0 and on_seg(*b, *c_, *d)))


def is_simple_ring(c):
    """closed, >=3 distinct vertices, non-zero area, no self-touching (collinear forward runs allowed)"""
    p = pts_of(c)
    if len(p) < 4 or p[0] != p[-1] or area2(c) == 0:
        return False
    n = len(p) - 1
    if len(set(p[:-1])) != n:
        return False
    segs = [(p[i], p[i + 1]) for i in range(n)]
    for i in range(n):
        for j in range(i + 1, n):
            adj = (j == i + 1) or (i == 0 and j == n - 1)
            if adj:
                s, t = segs[i], segs[j]
                shared = s[1] if j == i + 1 else s[0]
                os_ = s[0] if j == i + 1 else s[1]
                ot = t[1] if j == i + 1 else t[0]
                if cross(*shared, *os_, *ot) == 0 and (
                        (os_[0] - shared[0]) * (ot[0] - shared[0]) + (os_[1] - shared[1]) * (ot[1] - shared[1])) > 0:
                    return False
            elif segs_touch(segs[i], segs[j]):
                return False
    return True


def rings_disjoint(c1, c2):
    """no point shared between the two closed curves"""
    p, q = pts_of(c1), pts_of(c2)
    for s in zip(p[:-1], p[1:]):
        for t in zip(q[:-1], q[1:]):
            if segs_touch(s, t):
                return False
    return True


def ring_strictly_inside(inner, outer):
    """every point of closed curve `inner` is strictly inside simple ring `outer`"""
    if not rings_disjoint(inner, outer):
        return False
    x, y = inner[0], inner[1]
    return pt_ring(x, y, outer) == 'in'


def valid_polygon(rings):
    """int rings: shell simple, holes simple, strictly inside the shell, pairwise disjoint and not nested,
    every hole wound opposite to the shell"""
    if not rings or not is_simple_ring(rings[0]):
        return False
    sh = sgn(area2(rings[0]))
    for h in rings[1:]:
        if not is_simple_ring(h) or sgn(area2(h)) != -sh:
            return False
        if not ring_strictly_inside(h, rings[0]):
            return False
    hs = rings[1:]
    for i in range(len(hs)):
        for j in range(i + 1, len(hs)):
            if not rings_disjoint(hs[i], hs[j]):
                return False
            if pt_ring(hs[i][0], hs[i][1], hs[j]) != 'out' or pt_ring(hs[j][0], hs[j][1], hs[i]) != 'out':
                return False
    return True


def bbox(c):
    xs, ys = c[0::2], c[1::2]
    return (min(xs), min(ys), max(xs), max(ys))


def parts_compatible(a, b):
    """sufficient condition for two valid polygons (int rings) to have disjoint interiors:
    bounding boxes have disjoint interiors, or one lies strictly inside a hole of the other"""
    ba, bb = bbox(a[0]), bbox(b[0])
    if ba[2] <= bb[0] or bb[2] <= ba[0] or ba[3] <= bb[1] or bb[3] <= ba[1]:
        return True
    for outer, inner in ((a, b), (b, a)):
        for h in outer[1:]:
            if ring_strictly_inside(inner[0], h):
                return True
    return False


# ----------------------------------------------------------------------------- self test of the oracle
def _liang_barsky(ax, ay, bx, by, b):
    """closed segment vs closed box by parametric clipping in Fractions (independent of seg_box)"""
    x0, y0, x1, y1 = b
    t0, t1 = Fraction(0), Fraction(1)
    dx, dy = bx - ax, by - ay
    for p, q in ((-dx, ax - x0), (dx, x1 - ax), (-dy, ay - y0), (dy, y1 - ay)):
        if p == 0:
            if q < 0:
                return False
        else:
            r = Fraction(q, p)
            if p < 0:
                if r > t1:
                    return False
                t0 = max(t0, r)
            else:
                if r < t0:
                    return False
                t1 = min(t1, r)
    return t0 <= t1


def self_test():
    import itertools
    rng = range(-2, 3)
    boxes = [(-1, -1, 1, 1), (0, 0, 2, 1), (-2, 0, -1, 2)]
    n = 0
    for ax, ay, bx, by in itertools.product(rng, repeat=4):
        for b in boxes:
            assert seg_box(ax, ay, bx, by, b) == _liang_barsky(ax, ay, bx, by, b), (ax, ay, bx, by, b)
            assert seg_box(ax, ay, bx, by, b) == seg_box(bx, by, ax, ay, b)
            # dihedral symmetry: reflect x
            assert seg_box(ax, ay, bx, by, b) == seg_box(-ax, ay, -bx, by, (-b[2], b[1], -b[0], b[3]))
            # transpose
            assert seg_box(ax, ay, bx, by, b) == seg_box(ay, ax, by, bx, (b[1], b[0], b[3], b[2]))
            n += 1
    sq = [0, 0, 4, 0, 4, 4, 0, 4, 0, 0]
    hole = [1, 1, 1, 3, 3, 3, 3, 1, 1, 1]
    assert valid_polygon([sq, hole]) and valid_polygon([_rev(sq), _rev(hole)])
    assert not valid_polygon([sq, _rev(hole)])
    assert pt_poly(2, 2, [sq, hole]) == 'out' and pt_poly(1, 2, [sq, hole]) == 'on'
    assert pt_poly(4, 4, [sq, hole]) == 'on' and pt_poly(5, 2, [sq, hole]) == 'out'
    for x in range(-1, 6):
        for y in range(-1, 6):
            r = pt_ring(x, y, sq)
            exp = 'in' if 0 < x < 4 and 0 < y < 4 else ('on' if 0 <= x <= 4 and 0 <= y <= 4 else 'out')
            assert r == exp
            # translation + reversal invariance
            assert pt_ring(x + 7, y - 3, [v + (7 if i % 2 == 0 else -3) for i, v in enumerate(_rev(sq))]) == exp
    assert poly_box([sq, hole], (3, 3, 5, 5)) and not poly_box([sq, hole], (5, 5, 6, 6))
    assert not poly_box([sq, hole], (2, 2, 2, 2))   # box (a point) strictly inside the hole
    assert poly_box([sq, hole], (1, 1, 3, 3)) and poly_box([sq, hole], (-1, -1, 5, 5))
    return n


def _rev(c):
    p = pts_of(c)[::-1]
    return [v for q in p for v in q]
