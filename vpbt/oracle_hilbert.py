"""Independent reference for the 2-d Hilbert curve (pure Python ints, no library code).

Recursive construction (not Skilling's transpose algorithm the library uses):
  H_0 = [(0,0)]
  H_{p+1} = transpose(H_p) ++ (H_p + (0,s)) ++ (H_p + (s,s)) ++ (anti-transpose(H_p) + (s,0)),  s = 2^p
so the curve starts at (0,0), ends at (2^{p+1}-1, 0), and consecutive cells are grid neighbours.
"""


def d2xy(p, d):
    """cell visited at distance d by the order-p curve"""
    x = y = 0
    # iterative evaluation from the finest level up: process base-4 digits of d from least significant
    # (x,y) is the position inside the sub-square of side s
    s = 1
    for level in range(p):
        q = (d >> (2 * level)) & 3
        if q == 0:
            x, y = y, x
        elif q == 1:
            x, y = x, y + s
        elif q == 2:
            x, y = x + s, y + s
        else:
            x, y = 2 * s - 1 - y, s - 1 - x
        s <<= 1
    return x, y


def xy2d(p, x, y):
    """inverse of d2xy, top-down"""
    d = 0
    s = 1 << (p - 1) if p > 0 else 0
    for level in range(p - 1, -1, -1):
        s = 1 << level
        if x < s and y < s:
            q = 0
            x, y = y, x
        elif x < s and y >= s:
            q = 1
            y -= s
        elif x >= s and y >= s:
            q = 2
            x -= s
            y -= s
        else:
            q = 3
            # (X,Y) = (2s-1-y', s-1-x')  ->  y' = 2s-1-X, x' = s-1-Y
            x, y = s - 1 - y, 2 * s - 1 - x
        d |= q << (2 * level)
    return d


def self_test():
    for p in range(0, 6):
        n = 1 << (2 * p)
        cells = [d2xy(p, d) for d in range(n)]
        assert len(set(cells)) == n
        assert all(0 <= x < (1 << p) and 0 <= y < (1 << p) for x, y in cells)
        assert cells[0] == (0, 0)
        if p:
            assert cells[-1] == ((1 << p) - 1, 0)
        for a, b in zip(cells[:-1], cells[1:]):
            assert abs(a[0] - b[0]) + abs(a[1] - b[1]) == 1
        for d, (x, y) in enumerate(cells):
            assert xy2d(p, x, y) == d
    return True
