import os
import sys


def main(argv):
    if len(argv) < 2:
        print('usage: check <ID> quick|thorough | check <ID> --replay <file>')
        return 2
    prop = argv[0].upper()
    from . import harness
    try:
        if argv[1] == '--replay':
            return harness.replay(prop, argv[2])
        tier = argv[1] if argv[1] in ('quick', 'thorough') else os.environ.get('VERIF_TIER', 'quick')
        seed = int(os.environ.get('VERIF_SEED', '1') or 1)
        return harness.run(prop, tier, seed)
    except SystemExit:
        raise
    except BaseException:  # noqa: BLE001
        import traceback
        print('HARNESS ERROR (exit 2, not a verdict):')
        traceback.print_exc()
        return 2


if __name__ == '__main__':
    sys.exit(main(sys.argv[1:]))
